#!/bin/bash
# Entry point of the verification framework.
#   run.sh <Cxx> <quick|thorough>   run the check of one property (rebuilds from /repo's working tree)
#   run.sh replay <file>            re-execute the case recorded in a replay file
#   run.sh build                    build both binaries (setup)
# Exit codes: 0 held on everything explored, 1 violation (VIOLATION line printed), 2 harness broken.
set -u
cd "$(dirname "$0")"
export GOFLAGS=-mod=mod GOPROXY=off GOSUMDB=off GOTOOLCHAIN=local
export VERIF_ROOT="$PWD"
mkdir -p bin evidence replays .work

build() { # atomic replace so that concurrent invocations never see a half-written binary
  go build -tags verif -o "bin/.fverif.$$" ./cmd/fverif && mv -f "bin/.fverif.$$" bin/fverif
}
buildrace() {
  go build -race -tags verif -o "bin/.fverif-race.$$" ./cmd/fverif && mv -f "bin/.fverif-race.$$" bin/fverif-race
}
needs_race() { case "$1" in C02|C05|C11|C19|C20) return 0;; *) return 1;; esac; }

case "${1:-}" in
  build)
    build || { echo "BROKEN: build failed"; exit 2; }
    buildrace || { echo "BROKEN: race build failed"; exit 2; }
    ;;
  replay)
    build || { echo "BROKEN: build failed"; exit 2; }
    buildrace || { echo "BROKEN: race build failed"; exit 2; }
    exec bin/fverif replay "$2"
    ;;
  C[0-9][0-9])
    tier="${2:-${VERIF_TIER:-quick}}"
    build || { echo "BROKEN: build failed (does /repo compile with -tags verif?)"; exit 2; }
    if needs_race "$1"; then buildrace || { echo "BROKEN: race build failed"; exit 2; }; fi
    exec bin/fverif check "$1" "$tier"
    ;;
  *)
    echo "usage: run.sh <Cxx> <quick|thorough> | replay <file> | build" >&2; exit 2;;
esac
