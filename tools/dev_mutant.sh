#!/bin/bash
# usage: tools/dev_mutant.sh <dir with patch.diff> <args to run.sh / fverif...>     e.g. tools/dev_mutant.sh /x/m1 C12 quick
# Development aid: applies a seeded change to a private worktree of /repo's HEAD and runs a check from a private
# copy of /verif against it (neither /repo nor /verif is touched). Uses its own directories, so it can run next to matrix.sh.
# VERIF_DEV_CMD=fverif runs "bin/fverif $args" instead of "./run.sh $args" (after building).
set -u
dir="$1"; shift
W=/tmp/mw/devrepo; V=/root/scratch/vdev
mkdir -p /tmp/mw
if [ ! -d "$W" ]; then git -C /repo worktree prune; git -C /repo worktree add -q --detach "$W" HEAD || exit 2; fi
cd "$W" && git checkout -q --detach "$(git -C /repo rev-parse HEAD)" 2>/dev/null; git reset -q --hard HEAD
if [ "$dir" != "none" ]; then git apply "$dir/patch.diff" 2>/dev/null || git apply --3way "$dir/patch.diff" || { echo NOAPPLY; exit 3; }; fi
mkdir -p "$V" && rsync -a --delete --exclude .git --exclude bin --exclude .work --exclude replays --exclude evidence /verif/ "$V"/
sed -i "s|=> /repo|=> $W|" "$V/go.mod"; mkdir -p "$V/evidence"
cd "$V"
if [ "${VERIF_DEV_CMD:-}" = fverif ]; then VERIF_ROOT="$V" ./run.sh build >/dev/null 2>&1; VERIF_ROOT="$V" bin/fverif "$@"; else VERIF_ROOT="$V" ./run.sh "$@"; fi
