#!/bin/bash
# usage: tools/confirm_mutant.sh <id e.g. C05-m1> <dir with patch.diff, demo *_test.go, notes.md>
# Confirms in a scratch worktree of /repo's HEAD that the change applies, compiles, passes the existing
# suite, and that its demonstration fails with the change and passes without. Prints one summary line.
set -u
export GOFLAGS=-mod=mod GOPROXY=off GOSUMDB=off GOTOOLCHAIN=local
id="$1"; dir="$2"; wt="/tmp/mw/$id"; log="/tmp/mw/$id.log"
mkdir -p /tmp/mw; rm -rf "$wt"; git -C /repo worktree prune
git -C /repo worktree add -q --detach "$wt" HEAD || { echo "$id WORKTREE-FAILED"; exit 2; }
cleanup() { git -C /repo worktree remove --force "$wt" 2>/dev/null; }
trap cleanup EXIT
cd "$wt"
if ! git apply "$dir/patch.diff" 2>"$log"; then
  if ! git apply --3way "$dir/patch.diff" 2>>"$log"; then echo "$id NOAPPLY $(head -2 "$log" | tr '\n' ' ')"; exit 3; fi
fi
git diff > /tmp/mw/$id.applied.diff
if ! go build ./pkg/... ./apis/... ./cmd/... >>"$log" 2>&1; then echo "$id NOBUILD"; exit 4; fi
suite=PASS
go test -vet=off -count=1 -timeout 25m ./... > /tmp/mw/$id.suite.log 2>&1 || {
  # tolerate the flaky CLI watch tests / delete-order race: re-run failing packages once
  fails=$(grep "^FAIL" /tmp/mw/$id.suite.log | awk '{print $2}' | grep furiko | sort -u)
  for p in $fails; do
    ok=0
    for try in 1 2 3; do go test -vet=off -count=1 "$p" >> /tmp/mw/$id.suite2.log 2>&1 && { ok=1; break; }; done
    [ $ok = 1 ] || suite="FAIL($p)"
  done
}
# demo files
paths=$(grep -ohE "(pkg|apis)/[A-Za-z0-9_/.-]+_test\.go" "$dir/notes.md" | sort -u)
pkgs=""
for p in $paths; do
  base=$(basename "$p"); src=$(find "$dir" -name "$base" | grep "$(basename $(dirname $p) | sed 's/^job$/util_job/')" | head -1)
  [ -z "$src" ] && src=$(find "$dir" -name "$base" | head -1)
  [ -z "$src" ] && continue
  cp "$src" "$p"; pkgs="$pkgs ./$(dirname $p)"
done
pkgs=$(echo $pkgs | tr ' ' '\n' | sort -u | tr '\n' ' ')
[ -z "$pkgs" ] && { echo "$id suite=$suite NODEMO"; exit 5; }
with=PASS; go test -vet=off -count=1 $pkgs > /tmp/mw/$id.demo_with.log 2>&1 || with=FAIL
git apply -R /tmp/mw/$id.applied.diff 2>>"$log" || { echo "$id suite=$suite demo_with=$with REVERT-FAILED"; exit 6; }
without=PASS; go test -vet=off -count=1 $pkgs > /tmp/mw/$id.demo_without.log 2>&1 || without=FAIL
verdict=REJECTED; [ "$suite" = PASS ] && [ "$with" = FAIL ] && [ "$without" = PASS ] && verdict=CONFIRMED
echo "$id suite=$suite demo_with_change=$with demo_without_change=$without => $verdict"
