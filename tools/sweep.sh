#!/bin/bash
# usage: tools/sweep.sh <tier> <seed>... : runs every check at the given seeds and prints one line each
tier="$1"; shift
cd "$(dirname "$0")/.."
for seed in "$@"; do
  for c in C01 C02 C03 C04 C05 C06 C07 C08 C09 C10 C11 C12 C13 C14 C15 C16 C17 C18 C19 C20; do
    out=$(VERIF_SEED=$seed ./run.sh $c $tier 2>&1); rc=$?
    echo "seed=$seed $c rc=$rc $(echo "$out" | grep -c '^VIOLATION') viol | $(echo "$out" | grep " $tier seed=" | cut -c1-170)"
    if [ $rc -ne 0 ]; then echo "$out" | grep -A2 '^VIOLATION\|^BROKEN\|INCONCLUSIVE' | head -12 | cut -c1-400; fi
  done
done
