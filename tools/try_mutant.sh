#!/bin/bash
# usage: tools/try_mutant.sh <patch.diff> <Cxx> [Cyy ...]   (applies the patch to /repo, runs the quick checks, reverts)
set -u
patch="$1"; shift
cd /repo || exit 2
if ! git diff --quiet; then echo "REPO DIRTY"; exit 2; fi
if ! git apply --3way "$patch" 2>/tmp/apply.err && ! git apply "$patch" 2>>/tmp/apply.err; then echo "PATCH DOES NOT APPLY: $(head -3 /tmp/apply.err)"; git reset -q --hard HEAD; exit 3; fi
cd /verif
for c in "$@"; do
  out=$(timeout 900 ./run.sh "$c" "${TIER:-quick}" 2>&1); rc=$?
  echo "== $c rc=$rc $(echo "$out" | grep -c '^VIOLATION') VIOLATION lines; $(echo "$out" | grep -m1 -A1 '^VIOLATION' | tail -1 | cut -c1-260)"
done
cd /repo && git reset -q --hard HEAD && git status --short | head -3
