#!/usr/bin/env python3
"""Regenerates /verif/MANIFEST.json from the table below (kept in one place so that it stays valid)."""
import json, os, subprocess
ROOT = os.path.dirname(os.path.dirname(os.path.abspath(__file__)))

CHECKS = {
 # id: (level, technique, engine, text, note, design_ref)
 "C01": ("exploration", "runtime reference-model monitor: production CronWorker/Schedule/heap ticked under a controlled (optionally advancing) clock, every schedule request compared with an independent per-JobConfig cursor model and an independent cron field matcher; termination watchdog on clock and cache reads",
         "refmon",
         "Seeded populations of JobConfigs admitted through the real webhooks are scheduled by the production CronWorker for 60-180 ticks per case (regular, sub-second, repeated-instant ticks, stalls up to days, status writes between ticks, clock advancing during a tick); per tick the requests must equal the reference stream (exactly once, increasing, inside the window, capped at maxMissedSchedules, never early) and Work() must return. Held on the executions produced.",
         "cronexpr.Next is the trusted definition of a match; populations up to 200 JobConfigs.", "6/C01"),
 "C02": ("fault_enumeration", "online monitors on the commit log of a simulated API server driving the real cron controller end to end; every controller API call index x fault kind injected once, plus random fault/crash/lag patterns and injected duplicate requests",
         "detsim",
         "The production CronWorker, cron Reconciler, ExecutionControl and the real webhooks run on a simulated API server; for scripted workloads every gated controller API call is failed before apply, conflicted, timed out after apply, or used as a crash point (before/after), plus random patterns and re-delivered schedule requests. At every Job create the monitor checks uniqueness per (owner UID, schedule time) among existing Jobs, name = <jobconfig>-<unix>, annotation = requested time, owner reference and UID label (JobConfig templates carry hostile metadata incl. stale furiko-owned keys; concurrent reconciles are parked between building a Job and sending it). Plus a round-trip phase for the <ns>/<name>.<unix> work-item key over names with dots and digits, and an 8 s threaded run of the real controllers under the race detector.",
         "simultaneous existence is judged; re-creation after the Job was deleted is not a duplicate.", "6/C02"),
 "C03": ("exploration", "runtime reference-model monitor: JobConfig event histories written through the real webhooks, delivered with chosen lag to the production InformerWorker/update handler and CronWorker, requests compared with an epoch cursor model",
         "refmon",
         "Seeded histories (create after start, expression/timezone/constraint updates, enable/disable, schedule removed/added, delete, recreate under the same name, label/status-only writes) interleaved with ticks and partial deliveries; after each delivered change the observed requests must be exactly those of the new state from the first tick after delivery on (nothing of the old schedule, nothing back-dated, nothing missing).",
         "times between a change and the first tick after its delivery are indeterminate by tick granularity.", "6/C03"),
 "C04": ("fault_enumeration", "runtime reference-model monitor over restart instants: persisted state produced by a real history, fresh production cron controller started at swept instants, requests compared with the reference lower bound; end-to-end crash/restart monitor in the simulation",
         "refmon",
         "For seeded persisted states (lastScheduled / lastUpdated / notBefore in every order incl. equalities, downtime below/at/above the threshold, all threshold and cap settings) a fresh CronWorker is initialised and ticked, 1-3 restarts per case; the requests must be exactly the due times later than the reference bound, capped, then continue normally; nothing at or before lastScheduled; never-scheduled JobConfigs get nothing before the start. An end-to-end phase crashes and restarts the whole controller set in the simulation (newest scheduled Job deleted, crashes at random API calls) and compares every schedule request of a restarted controller with the highest lastScheduled ever persisted.",
         "restart instants are sampled (sub-second offsets, exact threshold boundaries), not all instants.", "6/C04"),
 "C05": ("exploration", "online monitor on every start write against the true active set, counter-vs-truth at quiescent points, over seeded deterministic schedules of the real queue controller and active-job store with lag, watch stalls and relists, concurrent reconciles, faults and crashes; leader-failover runs of the production ControllerManager under the race detector",
         "detsim",
         "At every write that sets status.startTime of a Forbid/Enqueue Job the number of other started, unfinished Jobs of the JobConfig (API truth) must be below maxConcurrency; at every quiescent point and after every restart the in-memory counter must equal the true number of active Jobs (the store's compare-and-add is a scheduling point in half of the cases). Plus a threaded run of the production controllers under the race detector with the same start oracle and counter = truth once quiet, and porcupine linearizability checks of recorded utils/atomic.Counter histories.",
         "timed-out-but-applied start writes are judged under C20 (known finding there).", "6/C05"),
 "C06": ("exploration", "online monitors (refusal, FIFO at start writes) and fixpoint oracle (nothing startable queued) over seeded deterministic schedules of the real queue controller",
         "detsim",
         "Refusals only for Forbid Jobs, refused Jobs never get a task and end in AdmissionError, Enqueue Jobs start in creation order among due queued Jobs, and at the fixpoint no due Job is queued unless its JobConfig is exactly at its limit.",
         "FIFO uses strict creation-time order (API timestamps have 1 s resolution).", "6/C06"),
 "C07": ("exploration", "online monitor of the virtual clock at every start write, fixpoint oracle with no periodic resync",
         "detsim",
         "No start write before startAfter (owned and independent Jobs, startAfter edited while queued); with the clock past every startAfter and all timers drained no due Job is still queued - the re-sync must come from the controller's own deferred enqueue.",
         "bounded progress: fixpoint within the step budget, resync period longer than the horizon.", "6/C07"),
 "C08": ("exploration", "online monitor at every task (Pod) create: live set per index, retry numbering, retry delay, creation gates judged on the reconcile's recorded view",
         "detsim",
         "At every Pod create by the controller: no other live task of the index, retry number = number of earlier tasks of the index and < maxAttempts, retry delay elapsed since the previous attempt finished, and per the cached objects the reconcile read: index not succeeded, Job not complete / killed / refused / being deleted.",
         "terminal Pods always carry a container termination record in the explored space.", "6/C08"),
 "C09": ("fault_enumeration", "every controller API call index of scripted lifecycles x {fail before, timeout after apply, crash before, crash after} plus random patterns; monitors on task refs vs Pods after recovery, foreign objects, lost-while-exists",
         "detsim",
         "After each injected fault/crash and recovery to the fixpoint: no second task for an attempt, every created task listed (known finding for the unrecorded-task classes), refs never disappear, foreign objects never adopted or deleted and lead to AdmissionError, no task recorded lost while its Pod exists.",
         "see known_findings.json: unrecorded-task classes.", "6/C09"),
 "C10": ("exploration", "online monitor at the write that sets the finished condition and fixpoint oracle, against ground-truth Pod outcomes recorded from kubelet events",
         "detsim",
         "Succeeded only if the strategy is satisfied by Pods that really succeeded, Failed only if unsatisfiable in truth, finished (not being deleted) only with no live task; at the fixpoint decided Jobs have reached their result. Plus 20 000 generated TaskRef multisets through GetParallelTaskSummary / GetCondition / GetPhase against a direct restatement of the strategy rules.",
         "externally removed Pods are non-terminal ones (destroyed information is not demanded back).", "6/C10"),
 "C11": ("exploration", "pairwise monitor over every committed Job version (monotonicity, all writers) and coherence monitor on job-controller status writes",
         "detsim",
         "startTime never changes, finished never reverts, result/finish time stable unless user edit or deletion, createdTasks and task names never shrink, task timestamps never cleared, a task recorded as terminated or lost never goes back; controller-written versions have exactly one condition, matching state, terminal phase iff finished, counters equal to the list. Plus a threaded run under the race detector with the monotonicity and coherence oracles.",
         "", "6/C11"),
 "C12": ("exploration", "online monitor justifying every controller-issued Pod delete (pending timeout / kill / strategy decided / Job deleted / force-delete timeout) on the reconcile's view and the virtual clock; fixpoint oracle after all deadlines",
         "detsim",
         "Every Pod delete request of the controller must be justified at the clock reading of the commit; force deletes need the timeout and no forbid flag; at quiescent points after the kill time (and at the end of the run) every alive listed task has been asked to stop whatever the Job's phase, and every listed task that has not begun running past its pending timeout has been asked to stop; at the fixpoint killed Jobs are terminal.",
         "no periodic resync: un-armed deadlines show as stuck Jobs.", "6/C12"),
 "C13": ("exploration", "online monitors at the commit that removes a Job and at every controller-issued Job delete (TTL on the virtual clock); fixpoint oracle for completion of deletion and TTL cleanup",
         "detsim",
         "A Job object disappears only when no Pod of it exists; controller deletes happen no earlier than finish + effective TTL; at the fixpoint deleting Jobs without Pods are gone and finished Jobs past TTL are gone.",
         "", "6/C13"),
 "C14": ("exploration", "reference-model monitor over the real expansion/hash/validation/NewPod code, exhaustive withCount sub-range + generated specs",
         "refmon",
         "Runs the real GenerateIndexes/HashIndex/ValidateParallelismSpec/GetParallelStatus/NewPod on withCount 1..N (exhaustive) and on seeded withKeys/withMatrix specs and compares with an independent expansion; accepted specs must have pairwise distinct indexes, hashes, task names and status slots and Pods carrying their own index values. Held on the inputs explored, not a proof.",
         "hashstructure is the definition of the raw hash; ValidateParallelismSpec is taken as the admission decision.", "6/C14"),
 "C15": ("exploration", "quiescent-point oracle comparing JobConfig status with the true queued/active sets; pairwise monotonicity monitor on every JobConfig version",
         "detsim",
         "At every quiescent point queuedJobs/activeJobs, counts and state equal the truth and lastScheduled/lastExecuted cover every existing Job; over all versions they never decrease.",
         "", "6/C15"),
 "C16": ("exploration", "runtime monitor over the real mutating/validating webhooks: Webhook.Handle on generated raw AdmissionRequests, returned JSON patch applied to the raw bytes with evanphx/json-patch, re-submission, independent expectations for configName expansion, defaults and lastUpdated",
         "refmon",
         "For generated Job and JobConfig requests (typed and raw variants with fields omitted / null / empty, create and update, generated dynamic-config defaults) that the whole chain admits: the patch applies and reproduces the defaulted object, re-submission yields no patch, configName expansion gives the JobConfig's defaulted template, one controller owner reference and UID label, the policy default, substitution precedence explicit > option > JobConfig context; Jobs carry finalizer (create only), type, TTL, maxAttempts, pending timeout, restart policy defaults; lastUpdated is stamped exactly on schedule creation/change and never moved backwards.",
         "evaluation of option values is C18's subject; kube-apiserver's own patch application is represented by the same library it uses.", "6/C16"),
 "C17": ("exploration", "runtime monitor: generated near-boundary JobConfigs through the real admission chain, accepted ones pushed through cronschedule.New/Bump, NewJobFromJobConfig, the Job admission chain and NewPod with panic capture; generated one-field update pairs through the real update chain",
         "refmon",
         "Every JobConfig the chain accepts (under every generated cron dynamic configuration) must load into the cron schedule next to a healthy neighbour, bump, instantiate into a Job that passes the Job chain (with constructed values for required options) and expand into Pods for every index without error, panic or a call that never returns (decided by CPU time); updates changing exactly one immutable field (incl. start policy once started or finished, kill timestamp once passed) must be rejected while control updates pass.",
         "Kubernetes' PodTemplateSpec validation trusted; accept rate of the generator is reported in the evidence.", "6/C17"),
 "C18": ("exploration", "reference-model monitor: real EvaluateOptions / Mutator.MutateCreateJob / NewPod vs independent evaluator and single-pass substituter; determinism by repeated execution",
         "refmon",
         "Generated option specs (all five types), value maps (missing/null/wrong-typed/custom/'${..}'), overlapping explicit substitutions and task templates are run through the real option evaluation, the real configName admission path and NewPod; accepted outputs must satisfy per-type constraint predicates, equal the JobConfig default when no value was given, follow the source precedence, blank unknown reserved-prefix variables, leave other text untouched and be identical over 20 repeated calls. Held on the inputs explored.",
         "goment/time.Parse trusted for Date; exact text comparison only where sequential and single-pass substitution semantics coincide (no '$','{','}' in substituted values, no nested variables), determinism/totality always.", "6/C18"),
 "C19": ("exploration", "runtime reference-model monitor over the production ConfigManager and loaders with their real informers (delivery awaited on a logical marker), reader loops after bad updates, and a race-detector phase with concurrent readers and updaters",
         "refmon",
         "After every applied ConfigMap/Secret update the three getters must equal an independent field-by-field layering (defaults < ConfigMap < Secret, zero values win); after malformed / wrong-typed / bad-base64 updates 60 consecutive reads must return no error and the last good value, and a fence update must restore the layering; under -race 4 readers during ~10^4 updates must never see an error, a torn document or a non-monotone value, and the race detector must report nothing in configloader / controllercontext.",
         "the harness reads after every update, so 'last good' is well defined; fake clientset watch stands in for the API server.", "6/C19"),
 "C20": ("fault_enumeration", "every controller API call index of confluent cron+ad-hoc workloads x {500 before, 409 before, timeout after apply} plus random finite fault patterns; all safety monitors adopted, fixpoint convergence, reference schedule stream, fault-free twin-run outcome comparison",
         "detsim",
         "With all four controllers and the cron controller on the simulated API: during the run every safety monitor (C02, C05-C13) must stay silent, after faults stop a fixpoint is reached within the step budget with bounded requeues, every due schedule time inside the determinate window has its Job, and the set of Jobs and their results equal those of the fault-free run with the same seed. Random patterns include failed live GETs and minutes-long outages of one kind of call; a threaded run with injected before-apply faults runs under the race detector.",
         "twin equality on Job set and results (task-level kill-vs-finish races excluded); known findings listed in known_findings.json.", "6/C20"),
}

NOT_YET = {
}

def main():
    props = [json.loads(l) for l in open(os.path.join(ROOT, "properties.jsonl"))]
    hooks_commits = subprocess.run(["git", "-C", "/repo", "log", "--format=%H", "--grep=^verif:"], capture_output=True, text=True).stdout.split()
    m = {
        "version": 1,
        "setup_cmd": "./run.sh build",
        "hooks": {
            "guard": "verif (Go build tag)",
            "enable": "go build -tags verif (the harness module replaces github.com/furiko-io/furiko with /repo, so every build compiles /repo's working tree)",
            "baseline_off_cmd": "cd /repo && GOFLAGS=-mod=mod go test -vet=off -count=1 -timeout 25m ./...",
            "source_commits": hooks_commits,
            "add_only": True,
        },
        "engines": [],
        "checks": [],
        "not_applicable": [],
        "notes": "Technique family: runtime monitoring and sanitizers. run.sh rebuilds bin/fverif (and bin/fverif-race) from /repo's working tree before each check. Exit 0 held / 1 VIOLATION / 2 harness broken.",
    }
    eng = {}
    for p in props:
        pid = p["id"]
        if pid in CHECKS:
            level, tech, engine, text, note, ref = CHECKS[pid]
            m["checks"].append({
                "property_id": pid,
                "quick_cmd": f"./run.sh {pid} quick",
                "thorough_cmd": f"./run.sh {pid} thorough",
                "evidence_file": f"/verif/evidence/{pid}.json",
                "replay_cmd_template": "./run.sh replay {path}",
                "engine": engine,
                "level_claimed": {"category": level, "text": text, "design_ref": f"DESIGN.md §{ref}"},
                "level_note": note,
                "technique": tech,
            })
            for e in engine.split("+"):
                eng.setdefault(e.strip(), []).append(pid)
            if not note:
                m["checks"][-1]["level_note"] = "simulated API server / kubelet stand in for kube-apiserver, etcd and the node (DESIGN.md 3.1); held on the executions produced"
        else:
            m["not_applicable"].append({"property_id": pid, "reason": NOT_YET.get(pid, "check not built yet (planned, see DESIGN.md §6); not claimed until its monitor exists and is silent on the unchanged tree")})
    desc = {
        "refmon": ("internal/checks", "reference-model monitors: real furiko functions/objects run on generated inputs next to an independent executable model"),
        "detsim": ("internal/sim", "deterministic single-stepped simulation of the real controllers on a simulated API server with online monitors"),
        "stress": ("internal/stress", "real controllers on real goroutines, real informers/workqueues, Go race detector"),
        "lin": ("internal/checks", "porcupine linearizability check of recorded counter histories"),
    }
    for e, ids in eng.items():
        path, kind = desc.get(e, ("internal", e))
        m["engines"].append({"name": e, "path": path, "serves_properties": ids, "kind_free_text": kind})
    json.dump(m, open(os.path.join(ROOT, "MANIFEST.json"), "w"), indent=1)
    print("claimed", len(m["checks"]), "not_applicable", len(m["not_applicable"]))

main()
