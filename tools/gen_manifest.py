#!/usr/bin/env python3
"""Regenerates /verif/MANIFEST.json from the table below (kept in one place so that it stays valid)."""
import json, os, subprocess
ROOT = os.path.dirname(os.path.dirname(os.path.abspath(__file__)))

CHECKS = {
 # id: (level, technique, engine, text, note, design_ref)
 "C14": ("exploration", "reference-model monitor over the real expansion/hash/validation/NewPod code, exhaustive withCount sub-range + generated specs",
         "refmon",
         "Runs the real GenerateIndexes/HashIndex/ValidateParallelismSpec/GetParallelStatus/NewPod on withCount 1..N (exhaustive) and on seeded withKeys/withMatrix specs and compares with an independent expansion; accepted specs must have pairwise distinct indexes, hashes, task names and status slots and Pods carrying their own index values. Held on the inputs explored, not a proof.",
         "hashstructure is the definition of the raw hash; ValidateParallelismSpec is taken as the admission decision.", "6/C14"),
 "C18": ("exploration", "reference-model monitor: real EvaluateOptions / Mutator.MutateCreateJob / NewPod vs independent evaluator and single-pass substituter; determinism by repeated execution",
         "refmon",
         "Generated option specs (all five types), value maps (missing/null/wrong-typed/custom/'${..}'), overlapping explicit substitutions and task templates are run through the real option evaluation, the real configName admission path and NewPod; accepted outputs must satisfy per-type constraint predicates, equal the JobConfig default when no value was given, follow the source precedence, blank unknown reserved-prefix variables, leave other text untouched and be identical over 20 repeated calls. Held on the inputs explored.",
         "goment/time.Parse trusted for Date; exact text comparison only where sequential and single-pass substitution semantics coincide (no '$','{','}' in substituted values, no nested variables), determinism/totality always.", "6/C18"),
}

NOT_YET = {
}

def main():
    props = [json.loads(l) for l in open(os.path.join(ROOT, "properties.jsonl"))]
    hooks_commits = subprocess.run(["git", "-C", "/repo", "log", "--format=%H", "--grep=^verif:"], capture_output=True, text=True).stdout.split()
    m = {
        "version": 1,
        "setup_cmd": "./run.sh build",
        "hooks": {
            "guard": "verif (Go build tag)",
            "enable": "go build -tags verif (the harness module replaces github.com/furiko-io/furiko with /repo, so every build compiles /repo's working tree)",
            "baseline_off_cmd": "cd /repo && GOFLAGS=-mod=mod go test -vet=off -count=1 -timeout 25m ./...",
            "source_commits": hooks_commits,
            "add_only": True,
        },
        "engines": [],
        "checks": [],
        "not_applicable": [],
        "notes": "Technique family: runtime monitoring and sanitizers. run.sh rebuilds bin/fverif (and bin/fverif-race) from /repo's working tree before each check. Exit 0 held / 1 VIOLATION / 2 harness broken.",
    }
    eng = {}
    for p in props:
        pid = p["id"]
        if pid in CHECKS:
            level, tech, engine, text, note, ref = CHECKS[pid]
            m["checks"].append({
                "property_id": pid,
                "quick_cmd": f"./run.sh {pid} quick",
                "thorough_cmd": f"./run.sh {pid} thorough",
                "evidence_file": f"/verif/evidence/{pid}.json",
                "replay_cmd_template": "./run.sh replay {path}",
                "engine": engine,
                "level_claimed": {"category": level, "text": text, "design_ref": f"DESIGN.md §{ref}"},
                "level_note": note,
                "technique": tech,
            })
            for e in engine.split("+"):
                eng.setdefault(e.strip(), []).append(pid)
        else:
            m["not_applicable"].append({"property_id": pid, "reason": NOT_YET.get(pid, "check not built yet in this round (planned, see DESIGN.md §6); not claimed until its monitor exists and is silent on the unchanged tree")})
    desc = {
        "refmon": ("internal/checks", "reference-model monitors: real furiko functions/objects run on generated inputs next to an independent executable model"),
        "detsim": ("internal/sim", "deterministic single-stepped simulation of the real controllers on a simulated API server with online monitors"),
        "stress": ("internal/stress", "real controllers on real goroutines, real informers/workqueues, Go race detector"),
        "lin": ("internal/checks", "porcupine linearizability check of recorded counter histories"),
    }
    for e, ids in eng.items():
        path, kind = desc.get(e, ("internal", e))
        m["engines"].append({"name": e, "path": path, "serves_properties": ids, "kind_free_text": kind})
    json.dump(m, open(os.path.join(ROOT, "MANIFEST.json"), "w"), indent=1)
    print("claimed", len(m["checks"]), "not_applicable", len(m["not_applicable"]))

main()
