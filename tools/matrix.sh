#!/bin/bash
# usage: tools/matrix.sh <outfile> < list        (list lines: <id> <dir with patch.diff> <check> [<check> ...])
# Runs the seeded-change detection matrix on private copies: a scratch worktree of /repo's HEAD and a copy of /verif
# whose go.mod points at it, so that neither /repo nor /verif is disturbed. Removes both at the end.
set -u
out="$1"
T="${MATRIX_TAG:-}"; W=/tmp/mw/matrixrepo$T; V=/root/scratch/vmatrix$T   # MATRIX_TAG lets several instances run side by side
rm -rf "$V"; git -C /repo worktree remove --force "$W" 2>/dev/null; git -C /repo worktree prune
mkdir -p /tmp/mw && git -C /repo worktree add -q --detach "$W" HEAD || exit 2
mkdir -p "$V" && rsync -a --exclude .git --exclude bin --exclude .work --exclude replays --exclude evidence /verif/ "$V"/
sed -i "s|=> /repo|=> $W|" "$V/go.mod"
mkdir -p "$V/evidence"
: > "$out"
while read -r id dir checks; do
  [ -z "$id" ] && continue
  cd "$W" && git reset -q --hard HEAD
  if ! git apply "$dir/patch.diff" 2>/dev/null && ! git apply --3way "$dir/patch.diff" 2>/dev/null; then echo "$id NOAPPLY" >> "$out"; git reset -q --hard HEAD; continue; fi
  line="$id"
  for c in $checks; do
    o=$(cd "$V" && VERIF_ROOT="$V" timeout 1200 ./run.sh "$c" quick 2>&1); rc=$?
    first=$(echo "$o" | grep -m1 -A1 '^VIOLATION' | tail -1 | sed 's/^ *//' | cut -d: -f1)
    line="$line $c=$rc($first)"
  done
  echo "$line" >> "$out"
done
cd / && git -C /repo worktree remove --force "$W"; rm -rf "$V"
