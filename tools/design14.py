#!/usr/bin/env python3
"""Prints the table part of DESIGN.md section 14 from /verif/seeded/*/meta.json."""
import json, glob, os, collections
rows = []
per = collections.defaultdict(lambda: [0, 0, 0, 0])  # total, own, other, none
for d in sorted(glob.glob('/verif/seeded/C*')):
    m = json.load(open(os.path.join(d, 'meta.json')))
    own = m['property']
    caught, missed = m['checks_run']['caught_by'], m['checks_run']['not_caught_by']
    per[own][0] += 1
    if own in caught:
        per[own][1] += 1
        verdict = 'own check'
    elif caught:
        per[own][2] += 1
        verdict = 'another check'
    else:
        per[own][3] += 1
        verdict = '**not caught**'
    sigs = []
    for r in m['checks_run']['results']:
        if '=1(' in r:
            sigs.append(r.split('=')[0] + ': ' + r[r.index('(') + 1:-1])
    title = m['title']
    for pre in (own + ' / ', own + ' - '):
        if title.startswith(pre):
            title = title[len(pre):]
    title = title.split(' - ', 1)[-1].split(' — ', 1)[-1] if title[:2] in ('m1', 'm2') else title
    rows.append(f"| {m['id']} | {title[:120].replace('|', '/')} | {'; '.join(sigs) or '-'} | {', '.join(missed) or '-'} | {verdict} |")
print("| property | seeded changes | caught by own check | only by another property's check | not caught |")
print("|---|---|---|---|---|")
tot = [0, 0, 0, 0]
for p in sorted(per):
    t = per[p]
    tot = [a + b for a, b in zip(tot, t)]
    print(f"| {p} | {t[0]} | {t[1]} | {t[2]} | {t[3]} |")
print(f"| all | {tot[0]} | {tot[1]} | {tot[2]} | {tot[3]} |")
print()
print("| id | change | first signature per check that fired (quick tier) | run but silent | verdict |")
print("|---|---|---|---|---|")
print("\n".join(rows))
