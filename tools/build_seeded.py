#!/usr/bin/env python3
"""Assembles /verif/seeded/<id>/ from the sub-agents' outputs, the confirmation log and the detection matrix.
usage: build_seeded.py <confirm.txt> <matrix.txt> <commit>"""
import json, os, re, shutil, sys, glob
confirm, matrix, commit = sys.argv[1], sys.argv[2], sys.argv[3]
conf = {}
for l in open(confirm):
    p = l.split()
    if len(p) >= 2:
        conf[p[0]] = l.strip()
det = {}
for l in open(matrix):
    p = l.split()
    if len(p) >= 2 and p[1] != "NOAPPLY":
        det[p[0]] = p[1:]
src = {}
for d in glob.glob('/root/scratch/mut-out/C*-out/m[12]'):
    pid = os.path.basename(os.path.dirname(d))[:3]; src[f"{pid}-{os.path.basename(d)}"] = d
for d in glob.glob('/root/scratch/mut2-out/C*-out/m[12]'):
    pid = os.path.basename(os.path.dirname(d))[:3]; src[f"{pid}-r2{os.path.basename(d)}"] = d
for r in (3, 4, 5, 6):
    for d in glob.glob(f'/root/scratch/mut{r}-out/C*-out/m[12]'):
        pid = os.path.basename(os.path.dirname(d))[:3]; src[f"{pid}-r{r}{os.path.basename(d)}"] = d
root = '/verif/seeded'
os.makedirs(root, exist_ok=True)
kept = 0
for mid, d in sorted(src.items()):
    c = conf.get(mid, "")
    if "CONFIRMED" not in c or mid not in det:
        continue  # not confirmed on the final tree, or the patch no longer applies to it
    out = os.path.join(root, mid)
    shutil.rmtree(out, ignore_errors=True); os.makedirs(out)
    shutil.copy(os.path.join(d, 'patch.diff'), os.path.join(out, 'patch.diff'))
    if os.path.exists(os.path.join(d, 'patch.orig.diff')):
        shutil.copy(os.path.join(d, 'patch.orig.diff'), os.path.join(out, 'patch.orig.diff'))  # as delivered, before it was ported to the repaired tree
    demos = []
    for f in glob.glob(os.path.join(d, '**', '*_test.go'), recursive=True):
        rel = os.path.relpath(f, d).replace('/', '__')
        shutil.copy(f, os.path.join(out, rel)); demos.append(rel)
    notes = open(os.path.join(d, 'notes.md')).read()
    open(os.path.join(out, 'notes.md'), 'w').write(notes)
    title = notes.strip().splitlines()[0].lstrip('# ').strip()
    m = re.search(r'^#+ *(?:What is needed|Circumstances|What specific|Trigger|What is needed for it to manifest)[^\n]*\n(.*?)(?=^#+ )', notes, re.S | re.M | re.I)
    needs = re.sub(r'\s+', ' ', m.group(1)).strip()[:700] if m else ""
    paths = sorted(set(re.findall(r'(?:pkg|apis)/[A-Za-z0-9_/.-]+_test\.go', notes)))
    results = det.get(mid, [])
    caught = [r.split('=')[0] for r in results if '=1(' in r]
    missed = [r.split('=')[0] for r in results if '=0(' in r]
    meta = {"id": mid, "property": mid[:3], "title": title, "needs_to_manifest": needs,
            "demonstration_files": demos, "demonstration_paths_in_repo": paths,
            "confirmed": {"how": "tools/confirm_mutant.sh in a scratch worktree of /repo's HEAD at the time of the round (round 1-4 before the later fix: commits; rounds 5-6, ported patches and re-confirmations at 295f33d or later): patch applied, go build, full suite (go test -vet=off -count=1 ./..., known-flaky packages re-run alone), demonstration with and without the change", "result": c, "patch_applies_to_repo_commit": commit},
            "checks_run": {"how": "tools/matrix.sh: patch applied to a scratch worktree of /repo HEAD, ./run.sh <check> quick (seed 1) from a private copy of /verif; 1(sig) = exit 1 with that first violation signature, 0() = exit 0", "results": results, "caught_by": caught, "not_caught_by": missed}}
    json.dump(meta, open(os.path.join(out, 'meta.json'), 'w'), indent=1)
    kept += 1
print("kept", kept)

# index table
rows = []
for d in sorted(glob.glob(os.path.join(root, 'C*'))):
    m = json.load(open(os.path.join(d, 'meta.json')))
    own = m['property']
    caught, missed = m['checks_run']['caught_by'], m['checks_run']['not_caught_by']
    verdict = "own check" if own in caught else ("other check" if caught else "NOT caught")
    rows.append(f"| {m['id']} | {m['title'][:110].replace('|','/')} | {', '.join(caught) or '-'} | {', '.join(missed) or '-'} | {verdict} |")
open(os.path.join(root, 'INDEX.md'), 'w').write("| id | change | caught by (quick) | run but silent | verdict |\n|---|---|---|---|---|\n" + "\n".join(rows) + "\n")
print("index rows", len(rows))
