// Command fverif runs the runtime-monitoring checks of /verif against /repo.
package main

import (
	"fmt"
	"os"

	_ "furikoverif/internal/checks"
	"furikoverif/internal/core"
)

func main() {
	if len(os.Args) < 2 {
		fmt.Fprintln(os.Stderr, "usage: fverif check <prop> <tier> | worker ... | replay <file> | list")
		os.Exit(2)
	}
	switch os.Args[1] {
	case "check":
		os.Exit(core.CheckMain(os.Args[2:]))
	case "worker":
		os.Exit(core.WorkerMain(os.Args[2:]))
	case "replay":
		os.Exit(core.ReplayMain(os.Args[2:]))
	case "list":
		for _, id := range core.IDs() {
			fmt.Println(id)
		}
	default:
		fmt.Fprintln(os.Stderr, "unknown subcommand", os.Args[1])
		os.Exit(2)
	}
}
