package checks

import (
	"fmt"
	"math/rand"
	"sort"
	"strings"
	"time"

	metav1 "k8s.io/apimachinery/pkg/apis/meta/v1"
	"k8s.io/utils/pointer"

	execution "github.com/furiko-io/furiko/apis/execution/v1alpha1"
	jobutil "github.com/furiko-io/furiko/pkg/execution/util/job"
	"github.com/furiko-io/furiko/pkg/execution/util/parallel"
	"github.com/furiko-io/furiko/pkg/utils/ktime"

	"furikoverif/internal/core"
)

// c10Algebra: generated multisets of per-index task outcomes through the real
// GetParallelTaskSummary / GetCondition / GetPhase, against a direct restatement of C10.
func c10Algebra(env *core.Env, res *core.Result) {
	n := 20000
	if env.Tier == "thorough" {
		n = 1500000
	}
	silenceLogs()
	now := time.Date(2040, 1, 1, 12, 0, 0, 0, time.UTC)
	ktime.Clock = &ctlClock{T: now}
	r := rand.New(rand.NewSource(env.Seed*7561 + int64(env.From)))
	for c := 0; c < n; c++ {
		nidx := 1 + r.Intn(5)
		maxAtt := 1 + r.Intn(4)
		any := r.Intn(2) == 0
		job := &execution.Job{ObjectMeta: metav1.ObjectMeta{Name: "j", Namespace: "default", UID: "u"}}
		job.Spec.Template = &execution.JobTemplate{MaxAttempts: pointer.Int64(int64(maxAtt))}
		parallelJob := nidx > 1 || r.Intn(2) == 0
		if parallelJob {
			job.Spec.Template.Parallelism = &execution.ParallelismSpec{WithCount: pointer.Int64(int64(nidx)), CompletionStrategy: execution.AllSuccessful}
			if any {
				job.Spec.Template.Parallelism.CompletionStrategy = execution.AnySuccessful
			}
		} else {
			any = false // a Job without parallelism has one index and AllSuccessful semantics
		}
		st := metav1.NewTime(now.Add(-time.Hour))
		job.Status.StartTime = &st
		var refs []execution.TaskRef
		nsucc, nexh, nlive := 0, 0, 0
		var shape []string
		for i := 0; i < nidx; i++ {
			ntasks := r.Intn(maxAtt + 2)
			if ntasks > maxAtt {
				ntasks = maxAtt
			}
			succ, term, live := false, 0, false
			var s []string
			for k := 0; k < ntasks; k++ {
				ref := execution.TaskRef{Name: fmt.Sprintf("j-%d-%d", i, k), CreationTimestamp: metav1.NewTime(now.Add(-30 * time.Minute)), RetryIndex: int64(k)}
				if parallelJob {
					ref.ParallelIndex = &execution.ParallelIndex{IndexNumber: pointer.Int64(int64(i))}
				}
				last := k == ntasks-1
				kind := r.Intn(6)
				if !last && kind >= 4 {
					kind = r.Intn(4) // only the last task of an index may still be alive
				}
				run := metav1.NewTime(now.Add(-20 * time.Minute))
				fin := metav1.NewTime(now.Add(-time.Duration(1+r.Intn(600)) * time.Second))
				switch kind {
				case 0:
					ref.RunningTimestamp, ref.FinishTimestamp = &run, &fin
					ref.Status = execution.TaskStatus{State: execution.TaskTerminated, Result: execution.TaskSucceeded}
					succ = true
					term++
					s = append(s, "S")
				case 1:
					ref.RunningTimestamp, ref.FinishTimestamp = &run, &fin
					ref.Status = execution.TaskStatus{State: execution.TaskTerminated, Result: execution.TaskFailed}
					term++
					s = append(s, "F")
				case 2:
					ref.FinishTimestamp = &fin
					ref.Status = execution.TaskStatus{State: execution.TaskTerminated, Result: execution.TaskKilled}
					term++
					s = append(s, "K")
				case 3:
					ref.FinishTimestamp = &fin
					ref.Status = execution.TaskStatus{State: execution.TaskDeletedFinalStateUnknown, Result: execution.TaskFailed}
					term++
					s = append(s, "L")
				case 4:
					ref.RunningTimestamp = &run
					ref.Status = execution.TaskStatus{State: execution.TaskRunning}
					live = true
					s = append(s, "r")
				default:
					ref.Status = execution.TaskStatus{State: execution.TaskStarting}
					live = true
					s = append(s, "p")
				}
				refs = append(refs, ref)
			}
			if succ {
				nsucc++
			} else if term >= maxAtt {
				nexh++
			}
			if live {
				nlive++
			}
			shape = append(shape, strings.Join(s, ""))
		}
		r.Shuffle(len(refs), func(a, b int) { refs[a], refs[b] = refs[b], refs[a] })
		job.Status.Tasks = refs
		job.Status.CreatedTasks = int64(len(refs))
		wantSucc := nsucc >= nidx
		wantFail := nexh > 0
		if any {
			wantSucc = nsucc > 0
			wantFail = nexh >= nidx
		}
		if wantSucc {
			wantFail = false
		}
		viol := func(sig, f string, a ...interface{}) {
			res.Violate(core.Violation{Prop: "C10", Sig: sig, Msg: fmt.Sprintf(f, a...) + fmt.Sprintf(" [indexes=%d maxAttempts=%d anySuccessful=%v per-index outcomes=%v (S succeeded F failed K killed L lost r running p pending)]", nidx, maxAtt, any, shape), Case: -1000 - c})
		}
		res.Evaluations++
		sum, err := parallel.GetParallelTaskSummary(job, refs)
		if err != nil {
			viol("algebra-error", "GetParallelTaskSummary failed: %v", err)
			continue
		}
		gotSucc := sum.Complete && sum.Successful != nil && *sum.Successful
		gotFail := sum.Complete && sum.Successful != nil && !*sum.Successful
		if gotSucc != wantSucc || gotFail != wantFail {
			viol("algebra-summary", "summary says complete=%v successful=%v, the strategy implies success=%v failure=%v", sum.Complete, sum.Successful, wantSucc, wantFail)
			continue
		}
		cond, err := jobutil.GetCondition(job)
		if err != nil {
			viol("algebra-error", "GetCondition failed: %v", err)
			continue
		}
		set := 0
		for _, b := range []bool{cond.Queueing != nil, cond.Waiting != nil, cond.Running != nil, cond.Finished != nil} {
			if b {
				set++
			}
		}
		if set != 1 {
			viol("algebra-condition-count", "%d conditions set", set)
		}
		wantFinished := (wantSucc || wantFail) && nlive == 0
		if (cond.Finished != nil) != wantFinished {
			viol("algebra-finished", "finished condition set=%v but decided=%v with %d indexes still having a live task", cond.Finished != nil, wantSucc || wantFail, nlive)
			continue
		}
		job.Status.Condition = cond
		ph := jobutil.GetPhase(job)
		if ph.IsTerminal() != wantFinished {
			viol("algebra-phase", "phase %s terminal=%v but finished=%v", ph, ph.IsTerminal(), wantFinished)
		}
		if wantFinished {
			wantRes, wantPh := execution.JobResultSuccess, execution.JobSucceeded
			if wantFail {
				wantRes, wantPh = execution.JobResultFailed, execution.JobFailed
			}
			if cond.Finished.Result != wantRes || ph != wantPh {
				viol("algebra-result", "result %s / phase %s, the tasks' outcomes imply %s / %s", cond.Finished.Result, ph, wantRes, wantPh)
			}
		}
		sort.Strings(shape)
		if nidx >= 2 || len(refs) >= 2 {
			res.MarkDistinct(fmt.Sprintf("alg|%d|%v|%v", maxAtt, any, shape))
		}
		if c < 2 {
			res.Sample(map[string]interface{}{"kind": "status algebra", "indexes": nidx, "maxAttempts": maxAtt, "anySuccessful": any, "outcomes": shape, "summary_complete": sum.Complete, "finished": cond.Finished != nil}, 5)
		}
	}
	res.Count("algebra_cases", n)
}
