package checks

import (
	"fmt"
	"math/rand"
	"sort"
	"sync"
	"sync/atomic"
	"time"

	"github.com/anishathalye/porcupine"

	utilatomic "github.com/furiko-io/furiko/pkg/utils/atomic"

	"furikoverif/internal/core"
	"furikoverif/internal/sim"
)

// stressPhase returns a -race phase running the threaded engine; only violations of the given properties are reported.
func stressPhase(props map[string]bool, faultPct int, rename string) func(env *core.Env, res *core.Result) {
	return func(env *core.Env, res *core.Result) {
		dur := 8 * time.Second
		if env.Tier == "thorough" {
			dur = 40 * time.Second
		}
		opt := sim.StressOptions{Seed: env.Seed*131 + int64(env.From), Duration: dur, JobConfigs: 6, Workers: 4 + env.From%4, FaultPct: faultPct, MaxDelayMs: 4}
		r := sim.RunStress(opt)
		res.Cases++
		for k, v := range r.Counts {
			res.Count("stress_"+k, v)
		}
		res.Evaluations += r.Counts["start_writes"] + r.Counts["coherence_checks"] + r.Counts["task_creates"]
		for t := range r.StartTraces {
			res.MarkDistinct("stress-start|" + t)
		}
		if !r.Quiesced {
			res.Inconclusive = append(res.Inconclusive, fmt.Sprintf("stress run %d: %v", env.From, r.Notes))
		} else {
			res.Count("stress_runs_quiesced", 1)
		}
		for _, n := range r.Notes {
			res.Count("stress_note: "+n, 1)
		}
		for _, v := range r.Viol {
			prop, sig, msg := v.Prop, v.Sig, "[threaded run under -race] "+v.Msg
			if rename != "" && prop != rename {
				prop, sig = rename, "safety:"+v.Prop+":"+v.Sig
			}
			if !props[v.Prop] && rename == "" {
				prop = v.Prop // side observation
			}
			res.Violate(core.Violation{Prop: prop, Sig: sig, Msg: msg, Case: -1 - env.From, Detail: map[string]interface{}{"stress_options": opt, "counts": r.Counts}})
		}
		var traces []string
		for t := range r.StartTraces {
			traces = append(traces, t)
		}
		sort.Strings(traces)
		res.Sample(map[string]interface{}{"kind": "threaded -race run", "options": opt, "counts": r.Counts, "start_situations": traces}, 1)
	}
}

// failoverPhase runs the leader-failover scenario of the threaded engine (replicas built and started by the
// production ControllerManager with leader election on) under the race detector.
func failoverPhase(env *core.Env, res *core.Result) {
	phase, n := 2500*time.Millisecond, 2
	if env.Tier == "thorough" {
		phase, n = 4*time.Second, 4
	}
	opt := sim.FailoverOptions{Seed: env.Seed*977 + int64(env.From), Phase: phase, Failovers: n, JobConfigs: 4, Workers: 2 + env.From%3, MaxDelayMs: 3}
	r := sim.RunFailover(opt)
	res.Cases++
	for k, v := range r.Counts {
		res.Count("failover_"+k, v)
	}
	res.Evaluations += r.Counts["start_writes"] + r.Counts["counter_checks"]
	for t := range r.StartTraces {
		res.MarkDistinct("failover-start|" + t)
	}
	if !r.Quiesced && len(r.Viol) == 0 {
		res.Inconclusive = append(res.Inconclusive, fmt.Sprintf("failover run %d: %v", env.From, r.Notes))
	} else if r.Quiesced {
		res.Count("failover_runs_quiesced", 1)
	}
	for _, v := range r.Viol {
		res.Violate(core.Violation{Prop: v.Prop, Sig: v.Sig, Msg: "[leader failover, threaded run under -race] " + v.Msg, Case: -100 - env.From, Detail: map[string]interface{}{"failover_options": opt, "counts": r.Counts}})
	}
	res.Sample(map[string]interface{}{"kind": "leader failover under -race", "options": opt, "counts": r.Counts}, 1)
}

// ---------------------------------------------------------------------------
// linearizability of the active-job counter (porcupine)

type linIn struct {
	Key string
	Op  string // add | remove | get | cas
	Arg int64
}

type linOut struct {
	N  int64
	OK bool
}

func linModel() porcupine.Model {
	return porcupine.Model{
		Partition: func(ops []porcupine.Operation) [][]porcupine.Operation {
			by := map[string][]porcupine.Operation{}
			for _, o := range ops {
				k := o.Input.(linIn).Key
				by[k] = append(by[k], o)
			}
			var keys []string
			for k := range by {
				keys = append(keys, k)
			}
			sort.Strings(keys)
			var out [][]porcupine.Operation
			for _, k := range keys {
				out = append(out, by[k])
			}
			return out
		},
		Init: func() interface{} { return int64(0) },
		Step: func(state, input, output interface{}) (bool, interface{}) {
			st, in, out := state.(int64), input.(linIn), output.(linOut)
			switch in.Op {
			case "add":
				return out.N == st+1, st + 1
			case "remove":
				return out.N == st-1, st - 1
			case "get":
				return out.N == st, st
			default: // cas: succeeds iff the state equals the expected old value
				if st == in.Arg {
					return out.OK, st + 1
				}
				return !out.OK, st
			}
		},
		DescribeOperation: func(input, output interface{}) string {
			return fmt.Sprintf("%v -> %v", input, output)
		},
	}
}

// linPhase hits one Counter from many goroutines over 1-3 keys and checks each recorded history.
func linPhase(env *core.Env, res *core.Result) {
	histories := 150
	if env.Tier == "thorough" {
		histories = 3000
	}
	r := rand.New(rand.NewSource(env.Seed*977 + int64(env.From)))
	model := linModel()
	for h := 0; h < histories; h++ {
		c := utilatomic.NewCounter()
		nkeys := 1 + r.Intn(3)
		ng := 4 + r.Intn(9)
		per := 6 + r.Intn(14)
		var ops []porcupine.Operation
		var mu sync.Mutex
		var wg sync.WaitGroup
		start := time.Now()
		var gate int32
		for g := 0; g < ng; g++ {
			wg.Add(1)
			seed := r.Int63()
			go func(g int) {
				defer wg.Done()
				rr := rand.New(rand.NewSource(seed))
				for atomic.LoadInt32(&gate) == 0 {
				}
				var mine []porcupine.Operation
				for k := 0; k < per; k++ {
					in := linIn{Key: fmt.Sprintf("k%d", rr.Intn(nkeys))}
					var out linOut
					t0 := time.Since(start).Nanoseconds()
					switch rr.Intn(5) {
					case 0:
						in.Op = "add"
						out.N = c.Add(in.Key)
					case 1:
						in.Op = "remove"
						out.N = c.Remove(in.Key)
					case 2:
						in.Op = "get"
						out.N = c.Get(in.Key)
					default:
						in.Op = "cas"
						in.Arg = int64(rr.Intn(3))
						if rr.Intn(2) == 0 {
							in.Arg = c.Get(in.Key) // the check-then-add pattern of the queue controller
						}
						out.OK = c.CheckAndAdd(in.Key, in.Arg)
					}
					t1 := time.Since(start).Nanoseconds()
					mine = append(mine, porcupine.Operation{ClientId: g, Input: in, Call: t0, Output: out, Return: t1})
				}
				mu.Lock()
				ops = append(ops, mine...)
				mu.Unlock()
			}(g)
		}
		atomic.StoreInt32(&gate, 1)
		wg.Wait()
		result, info := porcupine.CheckOperationsVerbose(model, ops, 20*time.Second)
		res.Evaluations += len(ops)
		res.Count("lin_histories", 1)
		res.Count("lin_operations", len(ops))
		switch result {
		case porcupine.Ok:
			res.Count("lin_ok", 1)
		case porcupine.Unknown:
			res.Inconclusive = append(res.Inconclusive, fmt.Sprintf("history %d: porcupine timed out on %d operations", h, len(ops)))
		default:
			_ = info
			res.Violate(core.Violation{Prop: "C05", Sig: "counter-not-linearizable", Msg: fmt.Sprintf("history %d of %d operations by %d goroutines on %d keys of utils/atomic.Counter is not linearizable against the sequential integer model", h, len(ops), ng, nkeys), Case: -100 - env.From, Detail: map[string]interface{}{"operations": describeOps(ops)}})
		}
		res.MarkDistinct(fmt.Sprintf("lin|%d keys|%d goroutines|%d ops", nkeys, ng, per))
		if h == 0 {
			res.Sample(map[string]interface{}{"kind": "counter history (porcupine)", "goroutines": ng, "keys": nkeys, "operations": head(describeOps(ops), 12)}, 1)
		}
	}
}

func describeOps(ops []porcupine.Operation) []string {
	sort.Slice(ops, func(i, j int) bool { return ops[i].Call < ops[j].Call })
	var out []string
	for _, o := range ops {
		out = append(out, fmt.Sprintf("g%d [%d,%d] %v -> %v", o.ClientId, o.Call, o.Return, o.Input, o.Output))
	}
	return out
}
