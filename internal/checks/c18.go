package checks

import (
	"encoding/json"
	"fmt"
	"math/rand"
	"reflect"
	"sort"
	"strings"
	"time"

	"github.com/nleeper/goment"
	corev1 "k8s.io/api/core/v1"
	metav1 "k8s.io/apimachinery/pkg/apis/meta/v1"
	"k8s.io/apimachinery/pkg/util/validation/field"
	"k8s.io/utils/pointer"

	execution "github.com/furiko-io/furiko/apis/execution/v1alpha1"
	"github.com/furiko-io/furiko/pkg/core/options"
	"github.com/furiko-io/furiko/pkg/execution/mutation"
	"github.com/furiko-io/furiko/pkg/execution/taskexecutor/podtaskexecutor"
	"github.com/furiko-io/furiko/pkg/execution/tasks"
	"github.com/furiko-io/furiko/pkg/execution/util/parallel"
	"github.com/furiko-io/furiko/pkg/runtime/controllercontext/mock"

	"furikoverif/internal/core"
)

// C18: option evaluation and variable substitution are total, ordered and deterministic.

func init() {
	core.Register(&core.Check{
		ID:    "C18",
		Level: "exploration",
		Rule: "each case = a generated option spec (all five types, accepted by ValidateOptionSpec after defaulting) + a value map (missing/null/wrong-typed/empty/custom/'${..}' values) + explicit substitutions overlapping every source + a task template mixing literals, known, unknown and malformed variables; " +
			"run through the real Mutator.MutateCreateJob (configName path) and podtaskexecutor.NewPod and compared with an independent evaluator and single-pass substituter; non-trivial = >= 2 sources define one variable or >= 2 variables in one string; distinct = distinct (option-type multiset, value classes, source-overlap set, template token classes)",
		Assumptions: []string{
			"goment (moment.js formatting) and time.Parse(RFC3339) are trusted for the Date option",
			"exact comparison of substituted text only when no substituted value contains '$', '{' or '}' and the template has no nested/malformed variable; determinism and totality are judged always",
			"a rejected (valid) value is not counted against the property: the statement allows 'either rejects the Job or ...'",
		},
		Cases: func(tier string) int {
			if tier == "thorough" {
				return 400000
			}
			return 6000
		},
		Run: c18Run,
	})
}

var c18Names = []string{"a", "b", "env", "image_tag", "date", "user.name", "x-y", "A", "flag", "list"}
var c18Vals = []string{"v1", "prod", "staging", " padded ", "", "  ", "with space", "a,b", "UPPER", "日本", "x${job.name}y", "${option.a}", "$HOME", "{curly}", "1"}

func c18GenOption(r *rand.Rand, name string) execution.Option {
	o := execution.Option{Name: name, Label: "lbl"}
	switch r.Intn(5) {
	case 0:
		o.Type = execution.OptionTypeBool
		o.Bool = &execution.BoolOptionConfig{Default: r.Intn(2) == 0}
		switch r.Intn(5) {
		case 0:
			o.Bool.Format = execution.BoolOptionFormatOneZero
		case 1:
			o.Bool.Format = execution.BoolOptionFormatYesNo
		case 2:
			o.Bool.Format = execution.BoolOptionFormatCustom
			o.Bool.TrueVal, o.Bool.FalseVal = "--on", ""
			if r.Intn(2) == 0 {
				o.Bool.FalseVal = "--off"
			}
		case 3:
			o.Bool.Format = "" // defaulted to TrueFalse by the mutating step
			if r.Intn(2) == 0 {
				o.Bool = nil
			}
		default:
			o.Bool.Format = execution.BoolOptionFormatTrueFalse
		}
	case 1:
		o.Type = execution.OptionTypeString
		o.Required = r.Intn(3) == 0
		if r.Intn(4) > 0 {
			o.String = &execution.StringOptionConfig{Default: c18Vals[r.Intn(len(c18Vals))], TrimSpaces: r.Intn(2) == 0}
		}
	case 2:
		o.Type = execution.OptionTypeSelect
		o.Required = r.Intn(3) == 0
		vals := []string{"v1", "prod", "staging"}
		if r.Intn(3) == 0 {
			vals = append(vals, " padded ", "${option.a}")
		}
		o.Select = &execution.SelectOptionConfig{Values: vals, AllowCustom: r.Intn(3) == 0}
		if r.Intn(2) == 0 {
			o.Select.Default = vals[r.Intn(len(vals))]
		}
	case 3:
		o.Type = execution.OptionTypeMulti
		o.Required = r.Intn(3) == 0
		vals := []string{"v1", "prod", "staging", "a,b"}
		o.Multi = &execution.MultiOptionConfig{Values: vals, AllowCustom: r.Intn(3) == 0, Delimiter: []string{",", " ", "", "|", "--"}[r.Intn(5)]}
		for _, v := range vals {
			if r.Intn(3) == 0 {
				o.Multi.Default = append(o.Multi.Default, v)
			}
		}
	default:
		o.Type = execution.OptionTypeDate
		o.Required = r.Intn(3) == 0
		if r.Intn(3) > 0 {
			o.Date = &execution.DateOptionConfig{Format: []string{"", "YYYY-MM-DD", "D MMM YYYY", "HH:mm:ss", "X", "YYYY-MM-DDTHH:mm:ssZ"}[r.Intn(6)]}
		}
	}
	return o
}

// c18GenValue returns (value, given, class).
func c18GenValue(r *rand.Rand, o execution.Option) (interface{}, bool, string) {
	switch r.Intn(10) {
	case 0, 1:
		return nil, false, "absent"
	case 2:
		return nil, true, "null"
	case 3: // wrong type
		return []interface{}{float64(3), "x", true, map[string]interface{}{"k": "v"}, []interface{}{float64(1)}}[r.Intn(5)], true, "wrongtype"
	}
	switch o.Type {
	case execution.OptionTypeBool:
		return r.Intn(2) == 0, true, "typed"
	case execution.OptionTypeString:
		return c18Vals[r.Intn(len(c18Vals))], true, "typed"
	case execution.OptionTypeSelect:
		if r.Intn(2) == 0 {
			return o.Select.Values[r.Intn(len(o.Select.Values))], true, "typed-allowed"
		}
		return c18Vals[r.Intn(len(c18Vals))], true, "typed-custom"
	case execution.OptionTypeMulti:
		n := r.Intn(4)
		out := []interface{}{}
		cls := "typed-allowed"
		for i := 0; i < n; i++ {
			if r.Intn(3) > 0 {
				out = append(out, o.Multi.Values[r.Intn(len(o.Multi.Values))])
			} else {
				out = append(out, c18Vals[r.Intn(len(c18Vals))])
				cls = "typed-custom"
			}
		}
		if n == 0 {
			cls = "typed-empty"
		}
		return out, true, cls
	default:
		return []string{"2022-03-04T05:06:07Z", "2021-12-31T23:59:59+08:00", "", "2022-02-30T00:00:00Z", "yesterday", "2022-03-04", "2024-02-29T12:00:00-05:00"}[r.Intn(7)], true, "typed"
	}
}

func boolFmt(cfg *execution.BoolOptionConfig, v bool) string {
	switch cfg.Format {
	case execution.BoolOptionFormatOneZero:
		return map[bool]string{true: "1", false: "0"}[v]
	case execution.BoolOptionFormatYesNo:
		return map[bool]string{true: "yes", false: "no"}[v]
	case execution.BoolOptionFormatCustom:
		return map[bool]string{true: cfg.TrueVal, false: cfg.FalseVal}[v]
	}
	return map[bool]string{true: "true", false: "false"}[v]
}

func contains(l []string, s string) bool {
	for _, x := range l {
		if x == s {
			return true
		}
	}
	return false
}

// c18Expect is the independent evaluator: (mustReject, exactKnown, expected).
// mustReject: no output can respect the constraints. exactKnown: expected is the only legal output.
func c18Expect(o execution.Option, val interface{}) (mustReject bool, exact bool, want string, allowed []string) {
	switch o.Type {
	case execution.OptionTypeBool:
		cfg := o.Bool
		if cfg == nil {
			cfg = &execution.BoolOptionConfig{Format: execution.BoolOptionFormatTrueFalse}
		}
		if val == nil {
			return false, true, boolFmt(cfg, cfg.Default), nil
		}
		if b, ok := val.(bool); ok {
			return false, true, boolFmt(cfg, b), nil
		}
		return false, false, "", []string{boolFmt(cfg, true), boolFmt(cfg, false)}
	case execution.OptionTypeString:
		cfg := o.String
		if cfg == nil {
			cfg = &execution.StringOptionConfig{}
		}
		var s string
		if val == nil {
			s = cfg.Default
		} else if v, ok := val.(string); ok {
			s = v
		} else {
			return false, false, "", nil // wrong type: only totality judged
		}
		if cfg.TrimSpaces {
			s = strings.TrimSpace(s)
		}
		if o.Required && s == "" {
			return true, false, "", nil
		}
		return false, true, s, nil
	case execution.OptionTypeSelect:
		cfg := o.Select
		var s string
		if val == nil {
			s = cfg.Default
		} else if v, ok := val.(string); ok {
			s = v
		} else {
			return false, false, "", nil
		}
		if s != "" && !cfg.AllowCustom && !contains(cfg.Values, s) {
			return true, false, "", nil
		}
		if s == "" && o.Required {
			return true, false, "", nil
		}
		return false, true, s, nil
	case execution.OptionTypeMulti:
		cfg := o.Multi
		var l []string
		switch v := val.(type) {
		case nil:
		case []interface{}:
			for _, x := range v {
				s, ok := x.(string)
				if !ok {
					return false, false, "", nil
				}
				l = append(l, s)
			}
		default:
			return false, false, "", nil
		}
		if len(l) == 0 {
			l = cfg.Default
		}
		if len(l) == 0 && o.Required {
			return true, false, "", nil
		}
		for _, s := range l {
			if !cfg.AllowCustom && !contains(cfg.Values, s) {
				return true, false, "", nil
			}
			if s == "" {
				return false, false, "", nil // custom empty element: the code refuses, the property does not say
			}
		}
		return false, true, strings.Join(l, cfg.Delimiter), nil
	case execution.OptionTypeDate:
		cfg := o.Date
		if cfg == nil {
			cfg = &execution.DateOptionConfig{}
		}
		var s string
		switch v := val.(type) {
		case nil:
		case string:
			s = v
		default:
			return false, false, "", nil
		}
		if s == "" {
			if o.Required {
				return true, false, "", nil
			}
			return false, true, "", nil
		}
		t, err := time.Parse(time.RFC3339, s)
		if err != nil {
			return true, false, "", nil
		}
		if t.IsZero() {
			return false, false, "", nil
		}
		g, err := goment.New(t)
		if err != nil {
			return false, false, "", nil
		}
		if cfg.Format == "" {
			return false, true, g.Format(), nil
		}
		return false, true, g.Format(cfg.Format), nil
	}
	return false, false, "", nil
}

type c18Token struct {
	text  string
	class string
	name  string // variable name for well-formed variables
}

func c18GenTemplate(r *rand.Rand, names []string) ([]c18Token, bool) {
	lits := []string{"echo ", " $HOME ", "{} ", "a=b;", "$(date) ", "100% ", "\\n", "--flag=", "/bin/sh -c "}
	malformed := []string{"${", "${}", "${ option.a }", "${option.a", "$${option.a}}", "${job.a${job.name}}", "${${option.a}}", "}${"}
	n := 1 + r.Intn(6)
	var toks []c18Token
	wellFormed := true
	for i := 0; i < n; i++ {
		switch x := r.Intn(12); {
		case x < 3:
			toks = append(toks, c18Token{text: lits[r.Intn(len(lits))], class: "lit"})
		case x < 9:
			nm := names[r.Intn(len(names))]
			toks = append(toks, c18Token{text: "${" + nm + "}", class: "var", name: nm})
		case x < 11:
			nm := []string{"unknown", "job.unknown", "task.nope", "option.missing", "jobconfig.zzz", "jobs.name", "optional.a", "JOB.name", "job", "task.",
				"option.user-name", "task.index_matrix.some-key", "job.x-y", "option.image-tag", "jobconfig.a.b-c"}[r.Intn(15)]
			toks = append(toks, c18Token{text: "${" + nm + "}", class: "unk", name: nm})
		default:
			toks = append(toks, c18Token{text: malformed[r.Intn(len(malformed))], class: "malformed"})
			wellFormed = false
		}
	}
	return toks, wellFormed
}

var c18Reserved = []string{"jobconfig.", "job.", "task.", "option."}

func hasSpecial(s string) bool { return strings.ContainsAny(s, "${}") }

func podTemplateStrings(j *execution.Job) []string {
	var out []string
	if j.Spec.Template == nil || j.Spec.Template.TaskTemplate.Pod == nil {
		return out
	}
	for _, c := range j.Spec.Template.TaskTemplate.Pod.Spec.Containers {
		out = append(out, c.Image)
		out = append(out, c.Args...)
	}
	return out
}

func c18Run(env *core.Env, res *core.Result) {
	silenceLogs()
	for i := env.From; i < env.To; i++ {
		res.Cases++
		c18One(env, res, i)
	}
}

func c18One(env *core.Env, res *core.Result, caseIdx int) {
	r := env.Rand(caseIdx)
	detail := map[string]interface{}{}
	viol := func(sig, f string, a ...interface{}) {
		res.Violate(core.Violation{Prop: "C18", Sig: sig, Msg: fmt.Sprintf(f, a...), Case: caseIdx, Detail: detail})
	}
	defer func() {
		if p := recover(); p != nil {
			viol("panic", "panic during evaluation/substitution: %v", p)
		}
	}()

	// --- option spec
	nopt := r.Intn(5)
	perm := r.Perm(len(c18Names))
	spec := &execution.OptionSpec{}
	for k := 0; k < nopt; k++ {
		spec.Options = append(spec.Options, c18GenOption(r, c18Names[perm[k]]))
	}
	spec = options.MutateDefaultingOptionSpec(spec)
	if errs := options.ValidateOptionSpec(spec, field.NewPath("spec", "option")); len(errs) > 0 {
		res.Count("spec_rejected", 1)
		return
	}
	detail["optionSpec"] = spec

	// --- values
	values := map[string]interface{}{}
	var valClasses []string
	for _, o := range spec.Options {
		v, given, cls := c18GenValue(r, o)
		if given {
			values[o.Name] = v
		}
		valClasses = append(valClasses, string(o.Type)+":"+cls)
	}
	if r.Intn(8) == 0 {
		values["not_an_option"] = "zzz"
	}
	detail["values"] = values

	// --- (a) EvaluateOptions directly
	eval, errs := options.EvaluateOptions(values, spec, field.NewPath("spec", "optionValues"))
	defaults, derr := options.MakeDefaultOptions(spec)
	res.Evaluations++
	accepted := len(errs) == 0
	anyMustReject := false
	for _, o := range spec.Options {
		mr, _, _, _ := c18Expect(o, values[o.Name])
		anyMustReject = anyMustReject || mr
	}
	if accepted {
		res.Count("eval_accepted", 1)
		if len(eval) != len(spec.Options) {
			viol("eval-value-count", "EvaluateOptions returned %d values for %d options", len(eval), len(spec.Options))
			return
		}
		for _, o := range spec.Options {
			key := "option." + o.Name
			got, ok := eval[key]
			if !ok {
				viol("eval-missing-value", "no value for %s", key)
				return
			}
			val := values[o.Name]
			mustReject, exact, want, allowed := c18Expect(o, val)
			switch {
			case mustReject:
				viol(fmt.Sprintf("eval-constraint %s", o.Type), "option %s (%s, required=%v) given %#v was accepted with value %q although no value can respect its constraints", o.Name, o.Type, o.Required, val, got)
				return
			case exact && got != want:
				viol(fmt.Sprintf("eval-value %s", o.Type), "option %s (%s) given %#v evaluated to %q, expected %q", o.Name, o.Type, val, got, want)
				return
			case allowed != nil && !contains(allowed, got):
				viol(fmt.Sprintf("eval-format %s", o.Type), "option %s evaluated to %q, not one of %q", o.Name, got, allowed)
				return
			}
			if val == nil && derr == nil {
				if d, ok := defaults[key]; !ok || d != got {
					viol(fmt.Sprintf("eval-default %s", o.Type), "option %s without a value evaluated to %q but the JobConfig default is %q", o.Name, got, d)
					return
				}
			}
			res.Evaluations++
		}
	} else {
		res.Count("eval_rejected", 1)
		if !anyMustReject {
			res.Count("eval_rejected_though_model_accepts", 1)
		}
	}

	// --- (b)+(c) the configName path through the real mutator, then NewPod
	jc := &execution.JobConfig{
		ObjectMeta: metav1.ObjectMeta{Name: "cfg", Namespace: "ns", UID: "jc-uid-1"},
		Spec: execution.JobConfigSpec{
			Concurrency: execution.ConcurrencySpec{Policy: execution.ConcurrencyPolicyAllow},
			Option:      spec,
		},
	}
	// variable name pool: options, contexts, customs
	names := []string{"job.name", "job.namespace", "job.uid", "job.type", "job.max_attempts", "task.name", "task.retry_index", "task.index_num", "task.namespace",
		"jobconfig.name", "jobconfig.uid", "jobconfig.namespace", "custom", "custom.two"}
	for _, o := range spec.Options {
		names = append(names, "option."+o.Name)
	}
	explicit := map[string]string{}
	var overlap []string
	for k := r.Intn(5); k > 0; k-- {
		nm := names[r.Intn(len(names))]
		explicit[nm] = "X<" + c18Vals[r.Intn(len(c18Vals))] + ">"
		if r.Intn(5) == 0 {
			explicit[nm] = "" // the submitter blanks the variable explicitly
		}
		overlap = append(overlap, strings.SplitN(nm, ".", 2)[0])
	}
	sort.Strings(overlap)
	detail["explicitSubstitutions"] = explicit
	nstr := 1 + r.Intn(3)
	var templates [][]c18Token
	allWell := true
	var tokClasses []string
	for k := 0; k < nstr; k++ {
		t, wf := c18GenTemplate(r, names)
		allWell = allWell && wf
		templates = append(templates, t)
		for _, tk := range t {
			tokClasses = append(tokClasses, tk.class)
		}
	}
	join := func(t []c18Token) string {
		var sb strings.Builder
		for _, tk := range t {
			sb.WriteString(tk.text)
		}
		return sb.String()
	}
	container := corev1.Container{Name: "c", Image: join(templates[0])}
	var strs []string
	strs = append(strs, join(templates[0]))
	for k := 1; k < len(templates); k++ {
		s := join(templates[k])
		strs = append(strs, s)
		switch k {
		case 1:
			container.Args = append(container.Args, s)
		default:
			container.Env = append(container.Env, corev1.EnvVar{Name: "E", Value: s})
		}
	}
	detail["templates"] = strs
	jc.Spec.Template.Spec = execution.JobTemplate{
		MaxAttempts:  pointer.Int64(3),
		TaskTemplate: execution.TaskTemplate{Pod: &execution.PodTemplateSpec{Spec: corev1.PodSpec{Containers: []corev1.Container{container}}}},
	}

	ctrl := mock.NewContext()
	if err := ctrl.Informers().Furiko().Execution().V1alpha1().JobConfigs().Informer().GetIndexer().Add(jc); err != nil {
		panic(err)
	}
	ov, _ := json.Marshal(values)
	job := &execution.Job{
		ObjectMeta: metav1.ObjectMeta{Name: "cfg-adhoc", Namespace: "ns", UID: "job-uid-9"},
		Spec:       execution.JobSpec{ConfigName: "cfg", Substitutions: copyMap(explicit)},
	}
	if len(values) > 0 {
		job.Spec.OptionValues = string(ov)
	}
	mres := mutation.NewMutator(ctrl).MutateCreateJob(job)
	if len(mres.Errors) > 0 {
		res.Count("mutate_rejected", 1)
		if accepted {
			// JSON round trip of the values must not change the decision
			viol("mutate-vs-evaluate", "EvaluateOptions accepted the values but MutateCreateJob rejected them: %v", mres.Errors.ToAggregate())
		}
		return
	}
	if !accepted {
		viol("mutate-vs-evaluate", "EvaluateOptions rejected the values (%v) but MutateCreateJob admitted the Job", errs.ToAggregate())
		return
	}
	// expected merged substitutions: jobconfig context < evaluated options < explicit
	wantSubs := map[string]string{"jobconfig.uid": "jc-uid-1", "jobconfig.name": "cfg", "jobconfig.namespace": "ns"}
	for k, v := range eval {
		wantSubs[k] = v
	}
	for k, v := range explicit {
		wantSubs[k] = v
	}
	if !reflect.DeepEqual(job.Spec.Substitutions, wantSubs) {
		viol("merge-precedence", "Job substitutions %v, expected %v (explicit > option value/default > jobconfig context)", job.Spec.Substitutions, wantSubs)
		return
	}
	res.Evaluations++

	retry := int64(r.Intn(3))
	idx := parallel.GetDefaultIndex()
	tpl := &corev1.PodTemplateSpec{Spec: job.Spec.Template.TaskTemplate.Pod.Spec}
	jobBefore := job.DeepCopy()
	pod, err := podtaskexecutor.NewPod(job, tpl, tasks.TaskIndex{Retry: retry, Parallel: idx})
	if err != nil {
		viol("newpod-error", "NewPod: %v", err)
		return
	}
	// the Job handed to the executor is the informer-cache object: building a task must leave it untouched,
	// otherwise the next task (another index, a retry) is built from already substituted text
	if !reflect.DeepEqual(jobBefore, job) {
		viol("newpod-mutates-job", "NewPod changed the Job it was given: template containers before %q, after %q", podTemplateStrings(jobBefore), podTemplateStrings(job))
		return
	}
	if other, err := podtaskexecutor.NewPod(job, tpl, tasks.TaskIndex{Retry: retry + 1, Parallel: idx}); err == nil {
		fresh, _ := podtaskexecutor.NewPod(jobBefore.DeepCopy(), &corev1.PodTemplateSpec{Spec: jobBefore.Spec.Template.TaskTemplate.Pod.Spec}, tasks.TaskIndex{Retry: retry + 1, Parallel: idx})
		if fresh != nil && !reflect.DeepEqual(other.Spec, fresh.Spec) {
			viol("task-depends-on-earlier-task", "the Pod for retry %d built after the Pod for retry %d differs from the one built from a fresh copy of the same Job: %q vs %q", retry+1, retry, podStrings(other), podStrings(fresh))
			return
		}
	}
	gotStrs := []string{pod.Spec.Containers[0].Image}
	gotStrs = append(gotStrs, pod.Spec.Containers[0].Args...)
	for _, e := range pod.Spec.Containers[0].Env {
		gotStrs = append(gotStrs, e.Value)
	}
	// determinism
	for rep := 0; rep < 20; rep++ {
		p2, err := podtaskexecutor.NewPod(job, tpl, tasks.TaskIndex{Retry: retry, Parallel: idx})
		if err != nil || !reflect.DeepEqual(p2.Spec, pod.Spec) {
			viol("substitution-nondeterministic", "NewPod gave different Pod specs for the same Job and index: %q vs %q", gotStrs, podStrings(p2))
			return
		}
	}
	res.Evaluations++

	// reference single-pass substituter
	hash, _ := parallel.HashIndex(idx)
	ctxVars := map[string]string{
		"job.uid": "job-uid-9", "job.name": "cfg-adhoc", "job.namespace": "ns", "job.type": string(job.Spec.Type), "job.max_attempts": "3",
		"task.name": fmt.Sprintf("cfg-adhoc-%s-%d", hash, retry), "task.namespace": "ns", "task.retry_index": fmt.Sprint(retry), "task.index_num": "0",
	}
	lookup := func(name string) (string, bool) {
		if v, ok := wantSubs[name]; ok {
			return v, true
		}
		v, ok := ctxVars[name]
		return v, ok
	}
	exactOK := allWell
	nvars := 0
	multiSource := false
	for _, t := range templates {
		for _, tk := range t {
			if tk.class == "var" || tk.class == "unk" {
				nvars++
				if v, ok := lookup(tk.name); ok && hasSpecial(v) {
					exactOK = false
				}
				src := 0
				if _, ok := explicit[tk.name]; ok {
					src++
				}
				if _, ok := eval[tk.name]; ok {
					src++
				}
				if _, ok := ctxVars[tk.name]; ok {
					src++
				}
				if strings.HasPrefix(tk.name, "jobconfig.") {
					if _, ok := wantSubs[tk.name]; ok {
						src++
					}
				}
				if src >= 2 {
					multiSource = true
				}
			}
		}
	}
	if exactOK {
		for k, t := range templates {
			var sb strings.Builder
			for _, tk := range t {
				switch tk.class {
				case "lit":
					sb.WriteString(tk.text)
				default:
					if v, ok := lookup(tk.name); ok {
						sb.WriteString(v)
					} else if reservedVar(tk.name) {
						// unknown variable of a reserved prefix becomes empty
					} else {
						sb.WriteString(tk.text)
					}
				}
			}
			if gotStrs[k] != sb.String() {
				viol("substitution-value", "template %q became %q, expected %q (subs=%v)", strs[k], gotStrs[k], sb.String(), wantSubs)
				return
			}
			res.Evaluations++
		}
		res.Count("exact_compared", 1)
	} else {
		res.Count("determinism_only", 1)
	}
	if multiSource || nvars >= 2 {
		sort.Strings(valClasses)
		sort.Strings(tokClasses)
		res.MarkDistinct(fmt.Sprint(valClasses, overlap, tokClasses, exactOK))
		res.Sample(map[string]interface{}{"options": len(spec.Options), "values": values, "explicit": explicit, "templates": strs, "result": gotStrs, "exact_compared": exactOK}, 5)
	}
}

func reservedVar(name string) bool {
	for _, p := range c18Reserved {
		if strings.HasPrefix(name, p) && len(name) > len(p) {
			return true
		}
	}
	return false
}

func podStrings(p *corev1.Pod) []string {
	if p == nil {
		return nil
	}
	out := []string{p.Spec.Containers[0].Image}
	out = append(out, p.Spec.Containers[0].Args...)
	for _, e := range p.Spec.Containers[0].Env {
		out = append(out, e.Value)
	}
	return out
}

func copyMap(m map[string]string) map[string]string {
	out := make(map[string]string, len(m))
	for k, v := range m {
		out[k] = v
	}
	return out
}
