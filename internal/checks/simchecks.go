package checks

import (
	"fmt"
	"math/rand"
	"os"
	"strings"
	"time"

	"k8s.io/utils/pointer"

	configv1alpha1 "github.com/furiko-io/furiko/apis/config/v1alpha1"
	execution "github.com/furiko-io/furiko/apis/execution/v1alpha1"

	"furikoverif/internal/core"
	"furikoverif/internal/sim"
)

// simCase is one fully specified simulation.
type simCase struct {
	Opt     sim.Options
	Prof    sim.Profile
	Note    string
	Prepare func(w *sim.World, wl *sim.Workload)
	Reseed  bool // generate the workload from Opt.Seed rather than from the case's PRNG stream
}

// simSpec describes a simulation-decided property check.
type simSpec struct {
	ID         string
	Level      string
	Rule       string
	Assume     []string
	Quick      int
	Thorough   int
	Build      func(env *core.Env, i int, r *rand.Rand) simCase
	NonTrivial func(w *sim.World) bool
	EvalKeys   []string // monitor counters that count as deciding evaluations for this property
	Phases     []core.Phase
	After      func(env *core.Env, i int, w *sim.World, res *core.Result)
	// AdoptSafety re-labels violations of other properties as violations of this one ("<prop>:<sig>").
	AdoptSafety bool
	RacePkgs    []string
}

var modes = []string{"seq", "rand", "lag", "rand", "lag"}

func baseOptions(env *core.Env, i int, r *rand.Rand) sim.Options {
	return sim.Options{
		Seed:        env.CaseSeed(i),
		Mode:        modes[i%len(modes)],
		MaxInFlight: 1 + r.Intn(3),
		Split:       r.Intn(2) == 0,
		Horizon:     3 * time.Hour,
		StepBudget:  150000,
		StoreYield:  r.Intn(2) == 0,
		Relist:      r.Intn(3) == 0,
		Stall:       []time.Duration{0, 0, 30 * time.Second, 90 * time.Second}[r.Intn(4)],
	}
}

// withResync turns a case into the second configuration of DESIGN 3.2: the informers' periodic
// resync is on (every 10 virtual minutes, the production default), which re-delivers every cached
// object as an update; the safety monitors run as usual, liveness clauses are masked by design.
func withResync(o sim.Options, i int) sim.Options {
	if i%9 == 8 {
		o.Resync = 10 * time.Minute
		o.Horizon = 45 * time.Minute
	}
	return o
}

func jobCfg(ttl, pending, force int64) *configv1alpha1.JobExecutionConfig {
	return &configv1alpha1.JobExecutionConfig{
		DefaultTTLSecondsAfterFinished: pointer.Int64(ttl),
		DefaultPendingTimeoutSeconds:   pointer.Int64(pending),
		ForceDeleteTaskTimeoutSeconds:  pointer.Int64(force),
	}
}

// simPool holds the workload builders of every simulation-decided check: each check also judges
// its own property on a share of the other checks' workloads (a monitor is only as good as the
// histories it sees, and the other properties' workloads reach states its own does not).
var simPool []func(env *core.Env, i int, r *rand.Rand) simCase
var simPoolNames []string

func (spec *simSpec) own(tier string) int {
	if tier == "thorough" {
		return spec.Thorough
	}
	return spec.Quick
}

func runSim(spec *simSpec, env *core.Env, res *core.Result) {
	silenceLogs()
	own := spec.own(env.Tier)
	for i := env.From; i < env.To; i++ {
		res.Cases++
		r := env.Rand(i)
		var sc simCase
		if i < own {
			sc = spec.Build(env, i, r)
			if !sc.Opt.Cron {
				sc.Opt = withResync(sc.Opt, i)
			}
		} else {
			k := (i - own) % len(simPool)
			sc = simPool[k](env, i, r)
			sc.Note = strings.TrimSpace(sc.Note + " [workload of " + simPoolNames[k] + "]")
			res.Count("cross_workload_cases", 1)
		}
		w := sim.NewWorld(sc.Opt)
		gr := r
		if sc.Reseed {
			gr = rand.New(rand.NewSource(sc.Opt.Seed))
		}
		wl := sim.Gen(gr, sc.Prof)
		if sc.Prepare != nil {
			sc.Prepare(w, wl)
		}
		w.Script(wl.Ops)
		w.Run()
		w.Mon.Fixpoint()
		collect(spec, env, i, sc, w, wl, res)
		if spec.After != nil {
			spec.After(env, i, w, res)
		}
	}
}

func collect(spec *simSpec, env *core.Env, i int, sc simCase, w *sim.World, wl *sim.Workload, res *core.Result) {
	for _, k := range spec.EvalKeys {
		res.Evaluations += w.Mon.Evals[k]
	}
	for k, v := range w.Mon.Evals {
		res.Count("mon_"+k, v)
	}
	for _, k := range []string{"crashes", "quiescent_points", "step_resume", "step_deliver", "clock_advances", "step_relist", "relist_tombstones", "stalled_clock_advances"} {
		res.Count(k, w.Stat[k])
	}
	res.Count("mode_"+sc.Opt.Mode, 1)
	if w.HorizonHit {
		res.Count("horizon_reached", 1)
	}
	if w.Stuck {
		res.Count("step_budget_exhausted", 1)
	}
	desc := strings.Join(wl.Desc, " ")
	if spec.NonTrivial == nil || spec.NonTrivial(w) {
		res.MarkDistinct(w.Mon.TraceHash())
		res.Sample(map[string]interface{}{"case": i, "mode": sc.Opt.Mode, "inflight": sc.Opt.MaxInFlight, "split_notify": sc.Opt.Split, "workload": desc, "note": sc.Note,
			"steps": w.Steps, "api_events": w.API.LogLen(), "virtual_end": w.T(), "trace_head": head(w.Trace, 25)}, 3)
	}
	if dir := os.Getenv("VERIF_TRACE"); dir != "" {
		_ = os.WriteFile(fmt.Sprintf("%s/trace-%s-%d-%d.txt", dir, spec.ID, i, os.Getpid()), []byte(strings.Join(w.Trace, "\n")), 0o644)
	}
	first := true
	for _, v := range w.Mon.Viol {
		d := map[string]interface{}{"seed": env.CaseSeed(i), "mode": sc.Opt.Mode, "workload": desc, "note": sc.Note}
		if first {
			d["trace"] = w.Trace
			first = false
		}
		prop, sig, msg := v.Prop, v.Sig, v.Msg
		if spec.AdoptSafety && prop != spec.ID {
			prop, sig, msg = spec.ID, "safety:"+v.Prop+":"+v.Sig, "["+v.Prop+" under faults] "+v.Msg
		}
		res.Violate(core.Violation{Prop: prop, Sig: sig, Msg: msg, Case: i, Detail: d})
	}
}

func head(l []string, n int) []string {
	if len(l) > n {
		return l[:n]
	}
	return l
}

func registerSim(spec *simSpec) {
	simPool = append(simPool, spec.Build)
	simPoolNames = append(simPoolNames, spec.ID)
	core.Register(&core.Check{
		ID:          spec.ID,
		Level:       spec.Level,
		Rule:        spec.Rule,
		Assumptions: append([]string{"simulated API server/kubelet (DESIGN.md 3.1) stand in for kube-apiserver, etcd and the node; one seeded schedule per case at API-call / informer-delivery / tick granularity"}, spec.Assume...),
		Cases:       func(tier string) int { return spec.own(tier) + spec.own(tier)/3 },
		Run:         func(env *core.Env, res *core.Result) { runSim(spec, env, res) },
		Phases:      spec.Phases,
		RacePkgs:    spec.RacePkgs,
	})
}

var allPolicies = []execution.ConcurrencyPolicy{execution.ConcurrencyPolicyForbid, execution.ConcurrencyPolicyEnqueue, execution.ConcurrencyPolicyAllow}

func init() {
	registerSim(&simSpec{
		ID: "C05", Level: "exploration", Quick: 480, Thorough: 40000,
		Rule: "seeded cases: 1-2 JobConfigs (Forbid/Enqueue, maxConcurrency 1-3) x 3-10 Jobs created in bursts, finish/kill/delete in any order, schedules in seq/rand/lag mode with 1-3 in-flight reconciles, before-apply faults and crash/restart in a third of the cases; " +
			"non-trivial = at least one start write happened while another Job of the same JobConfig was active; distinct = distinct abstract trace (actor, verb, kind, state class)",
		Assume:   []string{"timed-out-but-applied start writes are decided under C20", "the JobConfig's concurrency spec is not edited during a case"},
		EvalKeys: []string{"C05", "C05_counter"},
		Build: func(env *core.Env, i int, r *rand.Rand) simCase {
			o := baseOptions(env, i, r)
			o.Kubelet = sim.KubeletOptions{MaxRun: 20, LateDie: 6}
			note := ""
			if i%3 == 1 {
				o.Faults = &sim.RandomFaults{Pct: 12, Kinds: []sim.FaultKind{sim.F500Before, sim.F409Before, sim.F503Before, sim.FCrashBefore, sim.FCrashAfter}, R: rand.New(rand.NewSource(o.Seed ^ 0xfa)), Crashes: 2, Until: 400}
				note = "faults+crashes"
			}
			return simCase{Opt: o, Note: note, Prof: sim.Profile{MinJobConfigs: 1, MaxJobConfigs: 2, MinJobs: 3, MaxJobs: 10, OwnedBias: 92,
				Policies:       []execution.ConcurrencyPolicy{execution.ConcurrencyPolicyForbid, execution.ConcurrencyPolicyEnqueue, execution.ConcurrencyPolicyEnqueue},
				MaxConcurrency: 3, Parallel: 15, MaxAttempts: 2, MaxRetryDelay: 3, KillPct: 20, DeletePct: 25, StartAfterPct: 15, Spread: 25, Burst: true, TTL: []int64{5, 30, 120},
				LateJobConfigs: 35, ForceRemovePct: 8, CrashAfterDeletePct: 40}}
		},
		NonTrivial: func(w *sim.World) bool { return w.Mon.Evals["C05_contended"] > 0 },
		RacePkgs:   []string{"pkg/execution/controllers/jobqueuecontroller", "pkg/execution/stores/activejobstore", "pkg/utils/atomic", "pkg/execution/util/job"},
		Phases: []core.Phase{
			{Name: "stress", Race: true, Run: stressPhase(map[string]bool{"C05": true}, 0, ""), Count: tierN(1, 3)},
			{Name: "lin", Race: true, Run: linPhase, Count: tierN(1, 2)},
			{Name: "failover", Race: true, Run: failoverPhase, Count: tierN(1, 3)},
		},
	})
	registerSim(&simSpec{
		ID: "C06", Level: "exploration", Quick: 480, Thorough: 40000,
		Rule: "as C05 with all three policies, startAfter on a third of the Jobs and bursts of Jobs created within one second; " +
			"non-trivial = a Job was refused by the queue controller or an Enqueue Job started while others were queued/active; distinct = distinct abstract trace",
		EvalKeys: []string{"C06", "C06_fix", "C07_fix"},
		Build: func(env *core.Env, i int, r *rand.Rand) simCase {
			o := baseOptions(env, i, r)
			o.Kubelet = sim.KubeletOptions{MaxRun: 20, LateDie: 4}
			if i%4 == 1 {
				o.Faults = &sim.RandomFaults{Pct: 10, Kinds: []sim.FaultKind{sim.F500Before, sim.F409Before}, R: rand.New(rand.NewSource(o.Seed ^ 0xfb)), Until: 300}
			}
			pols := allPolicies
			if i%2 == 0 {
				pols = []execution.ConcurrencyPolicy{execution.ConcurrencyPolicyEnqueue}
			}
			return simCase{Opt: o, Prof: sim.Profile{MinJobConfigs: 1, MaxJobConfigs: 3, MinJobs: 3, MaxJobs: 10, OwnedBias: 95, Policies: pols,
				MaxConcurrency: 2, Parallel: 10, MaxAttempts: 2, KillPct: 10, DeletePct: 15, StartAfterPct: 35, Spread: 25, Burst: true, TTL: []int64{5, 30, 120},
				LateJobConfigs: 25, ForceRemovePct: 30, CrashAfterDeletePct: 25}}
		},
		NonTrivial: func(w *sim.World) bool { return w.Mon.Evals["C06"] > 0 },
	})
	registerSim(&simSpec{
		ID: "C07", Level: "exploration", Quick: 1500, Thorough: 40000,
		Rule: "seeded cases: owned and independent Jobs, startAfter unset / past / = creation / +seconds..minutes, some postponed by the user while queued, several Jobs sharing a deadline, no periodic resync (the deferred re-sync must be the controller's own); " +
			"non-trivial = a Job whose startAfter lies after its creation; distinct = distinct abstract trace",
		Assume:   []string{"liveness is restated as bounded progress: at the fixpoint (no enabled step, no timer before the horizon, resync period longer than the horizon) no due Job is queued"},
		EvalKeys: []string{"C07", "C07_fix"},
		Build: func(env *core.Env, i int, r *rand.Rand) simCase {
			o := baseOptions(env, i, r)
			o.Kubelet = sim.KubeletOptions{MaxRun: 10}
			return simCase{Opt: o, Prof: sim.Profile{MaxJobConfigs: 2, MinJobs: 2, MaxJobs: 7, OwnedBias: 50, Policies: allPolicies, MaxConcurrency: 2,
				MaxAttempts: 1, StartAfterPct: 75, EditStartAfter: 30, KillPct: 5, DeletePct: 10, Spread: 30, Burst: true, TTL: []int64{10, 60}, LateJobConfigs: 15, ForceRemovePct: 12}}
		},
		NonTrivial: func(w *sim.World) bool { return w.Mon.Evals["C07"] > 0 },
	})
	registerSim(&simSpec{
		ID: "C08", Level: "exploration", Quick: 400, Thorough: 30000,
		Rule: "seeded cases: 1-4 Jobs, no parallelism / withCount 2-4 / withKeys / withMatrix, maxAttempts 1-5, retryDelay 0-20 s, every order of start/fail/succeed/vanish/flap across indexes (Pod fates are a function of seed and Pod name), kills and deletions, all schedule modes; " +
			"non-trivial = at least one retry (retry number >= 1) was created; distinct = distinct abstract trace",
		EvalKeys: []string{"C08"},
		Build: func(env *core.Env, i int, r *rand.Rand) simCase {
			o := baseOptions(env, i, r)
			o.Kubelet = sim.KubeletOptions{FailRate: 55, NeverSched: 15, LateDie: 5, Flap: 6, Vanish: 8, ExitOnDelete: 3, SlowStart: 4, Sidecar: 5}
			o.JobCfg = jobCfg(3600, 900, 900)
			if i%4 == 3 {
				o.Faults = &sim.RandomFaults{Pct: 6, Kinds: []sim.FaultKind{sim.F500Before, sim.F409Before}, R: rand.New(rand.NewSource(o.Seed ^ 0xf8)), Until: 300, ReadPct: 25}
			}
			return simCase{Opt: o, Prof: sim.Profile{MaxJobConfigs: 1, MinJobs: 1, MaxJobs: 4, OwnedBias: 30, Policies: []execution.ConcurrencyPolicy{execution.ConcurrencyPolicyAllow}, Parallel: 60,
				MaxAttempts: 5, MaxRetryDelay: 20, KillPct: 15, DeletePct: 10, StartAfterPct: 5, PendingTimeout: []int64{-1, 0, 10, 30}, TTL: []int64{30, 200}}}
		},
		NonTrivial: func(w *sim.World) bool { return w.Mon.Retries > 0 },
	})
	registerSim(&simSpec{
		ID: "C10", Level: "exploration", Quick: 400, Thorough: 25000,
		Rule: "simulation: shapes and strategies as C08 with outcomes per attempt in {succeeded, failed, OOM-killed, pending-timeout, vanished while running, killed-then-exited}; the finished condition is compared with the ground truth of Pod outcomes at the finishing write and at the fixpoint. " +
			"Plus (phase algebra) generated TaskRef multisets through GetParallelTaskSummary/GetCondition/GetPhase against a direct restatement of the strategy rules; non-trivial = Job with >= 2 indexes or >= 2 attempts; distinct = distinct abstract trace / distinct outcome multiset",
		EvalKeys: []string{"C10", "C10_fix"},
		Build: func(env *core.Env, i int, r *rand.Rand) simCase {
			o := baseOptions(env, i, r)
			o.Kubelet = sim.KubeletOptions{FailRate: 30 + r.Intn(50), NeverSched: 12, LateDie: 6, Flap: 8, Vanish: 8, ExitOnDelete: 3, SlowStart: 4, Sidecar: 5}
			if i%4 == 3 {
				o.Faults = &sim.RandomFaults{Pct: 6, Kinds: []sim.FaultKind{sim.F500Before, sim.F409Before}, R: rand.New(rand.NewSource(o.Seed ^ 0xfa1)), Until: 300, ReadPct: 25}
			}
			if i%5 == 4 {
				// the Pod cache is far behind: tasks are created, decided and stopped before the cache has seen them
				o.Mode, o.DeepLag, o.LagKinds = "lag", true, []sim.Kind{sim.KPod}
			}
			return simCase{Opt: o, Prof: sim.Profile{MaxJobConfigs: 1, MinJobs: 1, MaxJobs: 4, OwnedBias: 25, Policies: []execution.ConcurrencyPolicy{execution.ConcurrencyPolicyAllow}, Parallel: 70,
				MaxAttempts: 4, MaxRetryDelay: 8, KillPct: 8, DeletePct: 5, PendingTimeout: []int64{-1, 10, 25}, TTL: []int64{60, 300}, ForeignPct: 8}}
		},
		NonTrivial: func(w *sim.World) bool { return w.Mon.MultiAttemptJobs > 0 },
		Phases:     []core.Phase{{Name: "algebra", Run: c10Algebra, Count: tierN(1, 8)}},
	})
	registerSim(&simSpec{
		ID: "C11", Level: "exploration", Quick: 400, Thorough: 25000,
		Rule: "every Job version written in generated lifecycles (start, task progress in any order, flapping Pod status, Pod disappearance, kill, delete, write faults) is compared pairwise with its predecessor (monotonicity, all writers) and checked for coherence (versions computed by the job controller); " +
			"non-trivial = a Job with >= 5 versions; distinct = distinct abstract trace",
		EvalKeys: []string{"C11", "C11_coherence"},
		Build: func(env *core.Env, i int, r *rand.Rand) simCase {
			o := baseOptions(env, i, r)
			o.Kubelet = sim.KubeletOptions{FailRate: 45, NeverSched: 15, LateDie: 5, NeverDie: 10, Flap: 3, Vanish: 6, ExitOnDelete: 3, SlowStart: 6, Sidecar: 5}
			o.JobCfg = jobCfg(3600, 900, 40)
			if i%4 == 2 {
				o.Faults = &sim.RandomFaults{Pct: 10, Kinds: []sim.FaultKind{sim.F500Before, sim.F409Before, sim.FCrashBefore}, R: rand.New(rand.NewSource(o.Seed ^ 0xfc)), Until: 300, Crashes: 1, ReadPct: 20}
			}
			return simCase{Opt: o, Prof: sim.Profile{MaxJobConfigs: 2, MinJobs: 1, MaxJobs: 5, OwnedBias: 50, Policies: allPolicies, MaxConcurrency: 2, Parallel: 50,
				MaxAttempts: 3, MaxRetryDelay: 10, KillPct: 30, FutureKill: 40, ClearKillPct: 25, DeletePct: 25, StartAfterPct: 20, PendingTimeout: []int64{-1, 0, 8, 25}, TTL: []int64{20, 100}}}
		},
		NonTrivial: func(w *sim.World) bool { return w.Mon.MaxVersions >= 5 },
		RacePkgs:   []string{"pkg/execution/controllers/jobcontroller", "pkg/execution/util/job", "pkg/execution/taskexecutor"},
		Phases:     []core.Phase{{Name: "stress", Race: true, Run: stressPhase(map[string]bool{"C11": true}, 0, ""), Count: tierN(1, 2)}},
	})
	registerSim(&simSpec{
		ID: "C12", Level: "exploration", Quick: 400, Thorough: 30000,
		Rule: "seeded cases: kill before start / while pending / running / in retry back-off / after completion (kill timestamps now or in the future), pending-timeout and force-delete settings at Job and config level incl. 0 and unset, Pods that never get scheduled, terminate promptly / late / never, forbidTaskForceDeletion; every Pod delete request of a controller is judged (justified or not), fixpoint after all deadlines; " +
			"non-trivial = at least one controller Pod delete request; distinct = distinct abstract trace",
		Assume:   []string{"no periodic resync: a deadline whose deferred re-sync is never armed shows as a stuck Job at the fixpoint"},
		EvalKeys: []string{"C12", "C12_fix", "C12_quiescent", "C12_pending"},
		Build: func(env *core.Env, i int, r *rand.Rand) simCase {
			o := baseOptions(env, i, r)
			o.Kubelet = sim.KubeletOptions{FailRate: 35, NeverSched: 4, LateDie: 4, NeverDie: 4, Flap: 8, ExitOnDelete: 3, MaxRun: 40, SlowStart: 4, Sidecar: 5}
			o.JobCfg = jobCfg(3600, []int64{0, 15, 900}[r.Intn(3)], []int64{0, 20, 60}[r.Intn(3)])
			if i%4 == 1 {
				// transient write failures, also of the very delete that enforces a deadline
				o.Faults = &sim.RandomFaults{Pct: 15, Kinds: []sim.FaultKind{sim.F500Before, sim.F409Before, sim.F503Before}, R: rand.New(rand.NewSource(o.Seed ^ 0xfc2)), Until: 400}
			}
			prof := sim.Profile{MaxJobConfigs: 1, MinJobs: 1, MaxJobs: 4, OwnedBias: 30, Policies: []execution.ConcurrencyPolicy{execution.ConcurrencyPolicyAllow}, Parallel: 45,
				MaxAttempts: 3, MaxRetryDelay: 15, KillPct: 65, FutureKill: 50, ClearKillPct: 35, DeletePct: 8, StartAfterPct: 15, PendingTimeout: []int64{-1, -1, 0, 6, 20}, ForbidForce: 30, TTL: []int64{600}, ForeignPct: 12}
			if i%5 == 2 {
				// kills of Jobs that were refused admission half-way: parallel Jobs whose first index runs into a
				// foreign object on its first or second attempt while the other indexes' tasks are alive
				// (one Job per case: another Job's recorded finding would put the whole case beyond judgement)
				prof.Parallel, prof.ForeignPct, prof.KillPct, prof.ClearKillPct, prof.DeletePct, prof.MaxRetryDelay = 100, 85, 90, 0, 0, 3
				prof.MinJobs, prof.MaxJobs, prof.ForeignOnRetry, prof.CountOnly, prof.MaxAttempts = 1, 1, true, true, 3
				prof.KillAfter = 50
				o.Kubelet.FailRate, o.Kubelet.MaxRun = 75, 150
			}
			return simCase{Opt: o, Prof: prof}
		},
		NonTrivial: func(w *sim.World) bool { return w.Mon.Evals["C12"] > 0 },
	})
	registerSim(&simSpec{
		ID: "C13", Level: "exploration", Quick: 400, Thorough: 20000,
		Rule: "seeded cases: Jobs deleted while queued / running with 0-6 live tasks / finished, node termination delays (prompt, late, never), TTL in {0, 1, 20, 60, unset->config default}; judged at the commit that removes a Job object, at every controller-issued Job delete and at the fixpoint; " +
			"non-trivial = a Job was removed while it had created tasks, or a TTL deletion happened; distinct = distinct abstract trace",
		EvalKeys: []string{"C13", "C13_fix"},
		Build: func(env *core.Env, i int, r *rand.Rand) simCase {
			o := baseOptions(env, i, r)
			o.Kubelet = sim.KubeletOptions{FailRate: 35, NeverSched: 10, LateDie: 3, NeverDie: 8, ExitOnDelete: 4}
			o.JobCfg = jobCfg([]int64{0, 30, 120}[r.Intn(3)], 900, []int64{0, 30}[r.Intn(2)])
			o.Horizon = 2 * time.Hour
			if i%5 == 4 {
				// the Pod cache is far behind: finished tasks are known from live reads only when the Job is deleted
				o.Mode, o.DeepLag, o.LagKinds = "lag", true, []sim.Kind{sim.KPod}
			}
			return simCase{Opt: o, Prof: sim.Profile{MaxJobConfigs: 1, MinJobs: 1, MaxJobs: 5, OwnedBias: 30, Policies: []execution.ConcurrencyPolicy{execution.ConcurrencyPolicyAllow}, Parallel: 50,
				MaxAttempts: 2, MaxRetryDelay: 5, KillPct: 15, DeletePct: 60, StartAfterPct: 10, TTL: []int64{-1, 0, 1, 20, 60}, ForeignFinalizerPct: 20, EditTTLPct: 25, CrashAfterDeletePct: 15}}
		},
		NonTrivial: func(w *sim.World) bool { return w.Mon.Evals["C13"] > 0 },
	})
	registerSim(&simSpec{
		ID: "C15", Level: "exploration", Quick: 1200, Thorough: 40000,
		Rule: "seeded histories of create, start, finish, delete and TTL cleanup of Jobs of 1-3 JobConfigs with the Job and JobConfig caches lagging independently, deletion of the newest Job, restarts; the JobConfig status is compared with the true queued/active sets at every quiescent point and every JobConfig version with its predecessor; " +
			"non-trivial = a JobConfig whose status changed >= 3 times; distinct = distinct abstract trace",
		EvalKeys: []string{"C15", "C15_quiescent"},
		Build: func(env *core.Env, i int, r *rand.Rand) simCase {
			o := baseOptions(env, i, r)
			o.Kubelet = sim.KubeletOptions{MaxRun: 12}
			if i%3 == 2 {
				o.Faults = &sim.RandomFaults{Pct: 6, Kinds: []sim.FaultKind{sim.F500Before, sim.F409Before, sim.FCrashBefore, sim.FCrashAfter}, R: rand.New(rand.NewSource(o.Seed ^ 0xfd)), Until: 300, Crashes: 2}
			}
			return simCase{Opt: o, Prof: sim.Profile{MinJobConfigs: 1, MaxJobConfigs: 3, MinJobs: 2, MaxJobs: 8, OwnedBias: 95, Policies: allPolicies, MaxConcurrency: 2,
				MaxAttempts: 2, KillPct: 10, DeletePct: 35, StartAfterPct: 20, Spread: 30, TTL: []int64{3, 15, 60}, Namespaces: []string{"default", "team-a"}, LateJobConfigs: 20, ForceRemovePct: 8, TemplateMeta: 20}}
		},
		NonTrivial: func(w *sim.World) bool { return w.Mon.MaxJCVersions >= 3 },
	})
}

var _ = fmt.Sprint
