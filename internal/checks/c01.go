package checks

import (
	"context"
	"fmt"
	"math/rand"
	"strings"
	"time"

	metav1 "k8s.io/apimachinery/pkg/apis/meta/v1"

	execution "github.com/furiko-io/furiko/apis/execution/v1alpha1"
	"github.com/furiko-io/furiko/pkg/execution/controllers/croncontroller"

	"furikoverif/internal/core"
)

// C01: the production CronWorker (schedule heap, Pop/Bump, cap) under a controlled clock,
// compared tick by tick with the independent cursor model.

type c01Case struct {
	cfg      cronConfigGen
	start    time.Time
	njc      int
	ticks    int
	adv      time.Duration // > 0: advancing-clock sub-mode
	classes  map[string]bool
	fired    int
	capHit   bool
	rejected int
}

func genWindow(r *rand.Rand, start time.Time) (nbf, naf *metav1.Time) {
	if r.Intn(4) != 0 {
		return nil, nil
	}
	t0 := metav1.NewTime(start.Add(time.Duration(r.Intn(7200)-900) * time.Second).Truncate(time.Second))
	t1 := metav1.NewTime(t0.Add(time.Duration(r.Intn(10800)) * time.Second))
	switch r.Intn(3) {
	case 0:
		return &t0, nil
	case 1:
		return nil, &t1
	}
	return &t0, &t1
}

func tickStep(r *rand.Rand, stallClass *string) time.Duration {
	switch x := r.Intn(40); {
	case x < 24:
		return time.Second
	case x < 28:
		return 0 // the same instant ticked twice
	case x < 32:
		return time.Duration(r.Intn(3000)) * time.Millisecond
	case x < 36:
		*stallClass = "stall-min"
		return time.Duration(2+r.Intn(900)) * time.Second
	case x < 39:
		*stallClass = "stall-hours"
		return time.Duration(1+r.Intn(30)) * time.Hour
	default:
		*stallClass = "stall-days"
		return time.Duration(1+r.Intn(3)) * 24 * time.Hour
	}
}

func runC01(env *core.Env, res *core.Result) {
	for i := env.From; i < env.To; i++ {
		res.Cases++
		r := env.Rand(i)
		c01One(i, r, res)
		if cronHung {
			core.AbortWorker(res, env.To-i-1)
		}
	}
}

func c01One(i int, r *rand.Rand, res *core.Result) {
	g := genCronConfig(r)
	start := time.Date(2040, time.Month(1+r.Intn(12)), 1+r.Intn(28), r.Intn(24), r.Intn(60), r.Intn(60), r.Intn(2)*500_000_000, time.UTC)
	h := newCronHarness(start.Add(-time.Duration(1+r.Intn(3600))*time.Second), g.config())
	quartz := g.Format == "quartz"
	njc := 1 + r.Intn(8)
	if r.Intn(12) == 0 {
		njc = 40 + r.Intn(160)
	}
	classes := map[string]bool{}
	refs := map[string]*refJC{}
	viol := func(sig, f string, a ...interface{}) {
		res.Violate(core.Violation{Prop: "C01", Sig: sig, Msg: fmt.Sprintf(f, a...), Case: i})
	}
	var sampleDesc []string
	rejected := 0
	if r.Intn(3) == 0 {
		// twin JobConfigs: the same schedule under the same name in two namespaces (they fall due together)
		lines := []string{frequentExpr(r, quartz, false)}
		tz := tzChoices[r.Intn(len(tzChoices))]
		for _, ns := range []string{"twin-a", "twin-b"} {
			if created, err := h.jcClient(ns).Create(context.Background(), cronJobConfig(ns, "twin", lines, tz), metav1.CreateOptions{}); err == nil {
				if s, err := refParse(created, g); err == nil {
					refs[ns+"/twin"] = &refJC{sched: s, uid: string(created.UID), desc: fmt.Sprintf("%s/twin %q tz=%q", ns, lines, tz)}
					classes["same-name-two-namespaces"] = true
				}
			}
		}
	}
	for k := 0; k < njc; k++ {
		ns := []string{"default", "team-a"}[r.Intn(2)]
		name := fmt.Sprintf("jc-%d", k)
		if k%2 == 1 && r.Intn(2) == 0 {
			// the same name in the other namespace as the previous JobConfig: two JobConfigs, one name
			name = fmt.Sprintf("jc-%d", k-1)
			ns = "team-b"
			classes["same-name-two-namespaces"] = true
		}
		nexp := 1
		if r.Intn(4) == 0 {
			nexp = 2 + r.Intn(3)
		}
		var lines []string
		for x := 0; x < nexp; x++ {
			lines = append(lines, genExpr(r, quartz, g.hashNames()))
		}
		tz := tzChoices[r.Intn(len(tzChoices))]
		jc := cronJobConfig(ns, name, lines, tz)
		nbf, naf := genWindow(r, start)
		if nbf != nil || naf != nil {
			jc.Spec.Schedule.Constraints = &execution.ScheduleContraints{NotBefore: nbf, NotAfter: naf}
		}
		created, err := h.jcClient(ns).Create(context.Background(), jc, metav1.CreateOptions{})
		if err != nil {
			rejected++
			continue
		}
		s, err := refParse(created, g)
		if err != nil {
			// admission accepted what the reference cannot read: that is C17's business, not this check's
			res.Count("reference_cannot_parse_accepted_spec", 1)
			_ = h.jcClient(ns).Delete(context.Background(), name, metav1.DeleteOptions{})
			continue
		}
		refs[ns+"/"+name] = &refJC{sched: s, uid: string(created.UID), desc: fmt.Sprintf("%s/%s %q tz=%q", ns, name, lines, tz)}
		classes[fmt.Sprintf("fields%d", len(strings.Fields(lines[0])))] = true
		if nexp > 1 {
			classes["multi"] = true
		}
		if strings.Contains(strings.Join(lines, " "), "H") {
			classes["hashed"] = true
		}
		switch {
		case tz == "":
			classes["tz-default"] = true
		case offRe.MatchString(tz):
			classes["tz-offset"] = true
		default:
			classes["tz-name"] = true
		}
		if nbf != nil || naf != nil {
			classes["window"] = true
		}
		if len(sampleDesc) < 4 {
			sampleDesc = append(sampleDesc, refs[ns+"/"+name].desc)
		}
	}
	res.Count("jobconfigs_rejected_by_admission", rejected)
	res.Count("jobconfigs", len(refs))
	if len(refs) == 0 {
		return
	}
	// controller start
	h.clk.Set(start)
	if err := h.boot(); err != nil {
		viol("init-failed", "CronWorker.Init failed on a population accepted by admission: %v", err)
		return
	}
	for _, ref := range refs {
		ref.cursor = start // never scheduled: nothing before the start (C04's rule; lastUpdated <= start here)
	}
	adv := time.Duration(0)
	if r.Intn(5) == 0 {
		adv = []time.Duration{time.Millisecond, 40 * time.Millisecond, 300 * time.Millisecond, 1500 * time.Millisecond}[r.Intn(4)]
		classes["advancing-clock"] = true
	}
	ticks := 60 + r.Intn(120)
	maxMissed := g.maxMissed()
	fired := 0
	keys := sortedKeys(refs)
	for tick := 0; tick < ticks; tick++ {
		stall := ""
		step := tickStep(r, &stall)
		if stall != "" {
			classes[stall] = true
		}
		if step == 0 {
			classes["same-instant-twice"] = true
		}
		now := h.clk.T.Add(step)
		if adv > 0 && step == 0 {
			now = h.clk.T
		}
		// a status-only write (what the JobConfig controller does after a Job was created) between ticks must change nothing
		if r.Intn(6) == 0 && fired > 0 {
			k := keys[r.Intn(len(keys))]
			if ref := refs[k]; !ref.lastTS.IsZero() {
				ns, name, _ := strings.Cut(k, "/")
				jcs := h.ctrl.Furiko().ExecutionV1alpha1().JobConfigs(ns)
				if cur, err := jcs.Get(context.Background(), name, metav1.GetOptions{}); err == nil {
					ts := metav1.NewTime(ref.lastTS)
					cur.Status.LastScheduled = &ts
					_, _ = jcs.UpdateStatus(context.Background(), cur, metav1.UpdateOptions{})
					h.deliverAll()
					classes["status-update-between-ticks"] = true
				}
			}
		}
		h.clk.Set(now)
		h.clk.Delta = adv
		budget := 0
		if adv > 0 {
			budget = 60000
		}
		got, first, ok := h.tick(budget)
		h.clk.Delta = 0
		last := h.clk.Last
		if !ok {
			viol("work-does-not-terminate", "tick %d at %v: CronWorker.Work() read the clock more than %d times (clock advancing by %v per reading) and did not return", tick, first.Format(time.RFC3339Nano), h.clk.Reads-1, adv)
			return
		}
		res.Evaluations++
		// safety clauses on every observed request
		perKey := map[string]int{}
		for _, q := range got {
			fired++
			ref := refs[q.Key]
			if ref == nil {
				viol("request-for-unknown-jobconfig", "tick %d: request for %s which is not scheduled", tick, q.Key)
				continue
			}
			perKey[q.Key]++
			if q.TS.After(q.Reading) {
				viol("early", "tick %d: %s requested for %v while the clock read %v", tick, ref.desc, q.TS.UTC().Format(time.RFC3339), q.Reading.UTC().Format(time.RFC3339Nano))
			}
			if !q.TS.After(ref.lastTS) {
				viol("not-increasing", "tick %d: %s requested for %v after %v (duplicate or out of order)", tick, ref.desc, q.TS.Unix(), ref.lastTS.Unix())
			}
			if ref.sched.nbf != nil && q.TS.Before(*ref.sched.nbf) {
				viol("before-notBefore", "tick %d: %s requested for %v, before notBefore %v", tick, ref.desc, q.TS.UTC(), ref.sched.nbf.UTC())
			}
			if ref.sched.naf != nil && q.TS.After(*ref.sched.naf) {
				viol("after-notAfter", "tick %d: %s requested for %v, after notAfter %v", tick, ref.desc, q.TS.UTC(), ref.sched.naf.UTC())
			}
			if m, ok := ref.sched.simpleMatch(q.TS); ok {
				res.Count("independent_matcher_checks", 1)
				if !m {
					viol("off-schedule", "tick %d: %s requested for %v which matches none of its expressions (independent matcher, zone %v)", tick, ref.desc, q.TS.In(ref.sched.loc), ref.sched.loc)
				}
			}
			ref.lastTS = q.TS
		}
		for k, n := range perKey {
			if n > maxMissed {
				viol("cap-exceeded", "tick %d: %d requests for %s in one tick with maxMissedSchedules %d", tick, n, k, maxMissed)
			}
		}
		// exactness against the cursor model
		for _, k := range keys {
			ref := refs[k]
			if adv == 0 {
				exp, capped := ref.sched.expectTick(&ref.cursor, first, maxMissed)
				if capped {
					classes["cap-hit"] = true
				}
				if g, e := fmt.Sprint(unixList(reqTimes(got, k))), fmt.Sprint(unixList(exp)); g != e {
					viol("stream-mismatch", "tick %d at %v: %s expected %s got %s (maxMissedSchedules %d, default tz %q, format %q)", tick, first.UTC().Format(time.RFC3339Nano), ref.desc, e, g, maxMissed, g0(ref, "x"), gFormat(ref))
					ref.cursor = first // resynchronise so that one defect is reported once
					if ts := reqTimes(got, k); len(ts) > 0 && ts[len(ts)-1].After(ref.cursor) {
						ref.cursor = ts[len(ts)-1]
					}
				}
				continue
			}
			// advancing clock: the tick covers [first, last]; everything due by `first` must be there (up to the cap),
			// anything beyond must be due by `last`.
			c := ref.cursor
			must, capped := ref.sched.expectTick(&c, first, maxMissed)
			gotK := reqTimes(got, k)
			if len(gotK) < len(must) {
				viol("stream-mismatch", "tick %d (advancing clock %v..%v): %s expected at least %v got %v", tick, first.UTC().Format(time.RFC3339Nano), last.UTC().Format(time.RFC3339Nano), ref.desc, unixList(must), unixList(gotK))
			}
			for x, t := range gotK {
				if x < len(must) && !t.Equal(must[x]) {
					viol("stream-mismatch", "tick %d (advancing clock): %s expected %v got %v", tick, ref.desc, unixList(must), unixList(gotK))
					break
				}
			}
			// resynchronise the cursor on what was observed (times in (first, last] may or may not have fired)
			ref.cursor = c
			if len(gotK) > 0 && gotK[len(gotK)-1].After(ref.cursor) {
				ref.cursor = gotK[len(gotK)-1]
			}
			if capped || len(gotK) >= maxMissed {
				classes["cap-hit"] = true
				if last.After(ref.cursor) {
					// after the cap the worker resumes "from the present": somewhere in [first, last]
					ref.cursor = first
					if len(gotK) > 0 && gotK[len(gotK)-1].After(ref.cursor) {
						ref.cursor = gotK[len(gotK)-1]
					}
				}
			}
		}
	}
	res.Count("requests_observed", fired)
	if fired > 0 {
		var cl []string
		for c := range classes {
			cl = append(cl, c)
		}
		sortStrings(cl)
		res.MarkDistinct(strings.Join(cl, ","))
		for _, c := range cl {
			res.Count("class_"+c, 1)
		}
		res.Sample(map[string]interface{}{"case": i, "jobconfigs": len(refs), "ticks": ticks, "requests": fired, "classes": cl, "some_jobconfigs": sampleDesc,
			"config": fmt.Sprintf("format=%q maxMissed=%d defaultTZ=%q hashNames=%v", g.Format, maxMissed, g.DefaultTZ, g.hashNames())}, 3)
	}
}

func g0(ref *refJC, _ string) string { return ref.sched.loc.String() }
func gFormat(ref *refJC) string      { return fmt.Sprint(ref.sched.simple) }

func init() {
	core.Register(&core.Check{
		ID: "C01", Level: "exploration",
		Rule: "seeded populations of 1-200 JobConfigs (5/6/7-field expressions from a grammar incl. lists, ranges, steps, H forms, names, aliases, quartz '?'; 1-4 expressions; IANA zones with DST, UTC/GMT offsets, config default zone; notBefore/notAfter windows; cron configs: format x hashing flags x maxMissedSchedules) admitted through the real webhooks, then the production CronWorker ticked 60-180 times under a controlled clock (1 s ticks, sub-second offsets, the same instant twice, stalls of seconds to days, status-only writes between ticks; in a fifth of the cases the clock advances on every reading); " +
			"non-trivial = at least one schedule request observed; distinct = distinct set of structural classes hit (field count, multi, hashed, tz class, window, stall class, cap hit, advancing clock)",
		Assumptions: []string{"cronexpr.Next is the definition of 'matches' (trusted); an independent field matcher cross-checks plain numeric standard-format expressions in fixed-offset zones",
			"advancing-clock sub-mode judges safety clauses, termination of Work() and completeness up to the first clock reading of the tick"},
		Cases:       tierN(300, 25000),
		Run:         runC01,
		MinDistinct: 5,
	})
	_ = croncontroller.Clock
}
