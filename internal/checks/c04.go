package checks

import (
	"context"
	"fmt"
	"math/rand"
	"strings"
	"time"

	metav1 "k8s.io/apimachinery/pkg/apis/meta/v1"
	"k8s.io/utils/pointer"

	execution "github.com/furiko-io/furiko/apis/execution/v1alpha1"

	"furikoverif/internal/core"
	"furikoverif/internal/sim"
)

// C04: persisted state (status.lastScheduled, spec.schedule.lastUpdated, constraints) is
// produced by a real history (creation and schedule updates through the webhooks at chosen
// instants, status writes), then a fresh cron controller is started at a chosen instant and
// ticked; the requests of each new incarnation are compared with the reference lower bound.

func runC04(env *core.Env, res *core.Result) {
	for i := env.From; i < env.To; i++ {
		res.Cases++
		c04One(i, env.Rand(i), res)
		if cronHung {
			core.AbortWorker(res, env.To-i-1)
		}
	}
}

// c04Bound is the property's lower bound: later than the latest of lastScheduled, start - maxDowntime,
// lastUpdated; a never-scheduled JobConfig starts from the start time; notBefore is inclusive (handled by refSched.next).
func c04Bound(jc *execution.JobConfig, start time.Time, down time.Duration) (time.Time, string) {
	l := start
	why := "never-scheduled"
	if ls := jc.Status.LastScheduled; ls != nil && !ls.IsZero() {
		l = ls.Time
		why = "lastScheduled"
		if floor := start.Add(-down); floor.After(l) {
			l = floor
			why = "downtime-threshold"
		}
	}
	if sp := jc.Spec.Schedule; sp != nil && sp.LastUpdated != nil && sp.LastUpdated.After(l) {
		l = sp.LastUpdated.Time
		why = "lastUpdated"
	}
	return l, why
}

func c04One(i int, r *rand.Rand, res *core.Result) {
	ctx := context.Background()
	g := genCronConfig(r)
	g.MaxDowntime = []int64{0, 0, 1, 60, 300, 3600, 86400}[r.Intn(7)]
	if r.Intn(2) == 0 {
		g.MaxMissed = pointer.Int64([]int64{1, 5, 100}[r.Intn(3)])
	}
	down := 300 * time.Second
	if g.MaxDowntime > 0 {
		down = time.Duration(g.MaxDowntime) * time.Second
	}
	quartz := g.Format == "quartz"
	t0 := time.Date(2040, time.Month(1+r.Intn(12)), 1+r.Intn(28), r.Intn(24), r.Intn(60), r.Intn(60), 0, time.UTC)
	h := newCronHarness(t0, g.config())
	viol := func(sig, f string, a ...interface{}) {
		res.Violate(core.Violation{Prop: "C04", Sig: sig, Msg: fmt.Sprintf(f, a...), Case: i})
	}
	// relative instants around the restart: equalities and both sides of the threshold on purpose
	start := t0.Add(time.Duration(600+r.Intn(7200)) * time.Second)
	if r.Intn(3) == 0 {
		start = start.Add(time.Duration(r.Intn(1000)) * time.Millisecond)
	}
	rel := func() time.Time {
		choices := []time.Duration{0, -time.Second, -down, -down - time.Second, -down + time.Second, -time.Duration(r.Intn(int(down/time.Second)+1)) * time.Second,
			-time.Duration(r.Intn(7200)) * time.Second, -2 * down}
		t := start.Truncate(time.Second).Add(choices[r.Intn(len(choices))])
		if t.Before(t0) {
			t = t0
		}
		return t
	}
	njc := 1 + r.Intn(5)
	type plan struct {
		ns      string
		name    string
		created time.Time
		updated time.Time // zero: never
		lastSch time.Time // zero: never scheduled
		jc      *execution.JobConfig
	}
	var plans []*plan
	for k := 0; k < njc; k++ {
		p := &plan{ns: "default", name: fmt.Sprintf("jc-%d", k), created: rel()}
		if r.Intn(3) == 0 {
			if u := rel(); u.After(p.created) {
				p.updated = u
			}
		}
		if r.Intn(4) > 0 {
			if l := rel(); !l.Before(p.created) {
				p.lastSch = l
			}
		}
		lines := []string{frequentExpr(r, quartz, g.hashNames())}
		if r.Intn(5) == 0 {
			lines = append(lines, frequentExpr(r, quartz, g.hashNames()))
		}
		p.jc = cronJobConfig("default", p.name, lines, tzChoices[r.Intn(len(tzChoices))])
		if r.Intn(3) == 0 {
			c := &execution.ScheduleContraints{}
			nb := metav1.NewTime(rel().Add(time.Duration(r.Intn(900)-300) * time.Second))
			na := metav1.NewTime(start.Add(time.Duration(r.Intn(3600)-300) * time.Second).Truncate(time.Second))
			switch r.Intn(3) {
			case 0:
				c.NotBefore = &nb
			case 1:
				c.NotAfter = &na
			default:
				c.NotBefore, c.NotAfter = &nb, &na
			}
			p.jc.Spec.Schedule.Constraints = c
		}
		plans = append(plans, p)
	}
	// twins: the same name and schedule in a second namespace (they fall due together after the restart)
	var twins []*plan
	if r.Intn(3) == 0 {
		for _, p := range plans {
			if r.Intn(2) == 0 {
				t := *p
				t.jc = p.jc.DeepCopy()
				t.jc.Namespace = "team-b"
				t.ns = "team-b"
				twins = append(twins, &t)
			}
		}
		plans = append(plans, twins...)
	}
	// replay the history in time order
	type step struct {
		at time.Time
		do func()
	}
	var steps []step
	for _, p := range plans {
		p := p
		steps = append(steps, step{p.created, func() {
			if _, err := h.jcClient(p.ns).Create(ctx, p.jc, metav1.CreateOptions{}); err != nil {
				p.jc = nil
			}
		}})
		if !p.updated.IsZero() {
			steps = append(steps, step{p.updated, func() {
				if p.jc == nil {
					return
				}
				if cur, err := h.jcClient(p.ns).Get(ctx, p.name, metav1.GetOptions{}); err == nil {
					cur.Spec.Schedule.Cron.Expressions = nil
					cur.Spec.Schedule.Cron.Expression = frequentExpr(r, quartz, g.hashNames())
					_, _ = h.jcClient(p.ns).Update(ctx, cur, metav1.UpdateOptions{})
				}
			}})
		}
		if !p.lastSch.IsZero() {
			steps = append(steps, step{p.lastSch, func() {
				if p.jc == nil {
					return
				}
				jcs := h.ctrl.Furiko().ExecutionV1alpha1().JobConfigs(p.ns)
				if cur, err := jcs.Get(ctx, p.name, metav1.GetOptions{}); err == nil {
					ts := metav1.NewTime(p.lastSch)
					cur.Status.LastScheduled = &ts
					_, _ = jcs.UpdateStatus(ctx, cur, metav1.UpdateOptions{})
				}
			}})
		}
	}
	for len(steps) > 0 { // stable selection by time
		bi := 0
		for x := range steps {
			if steps[x].at.Before(steps[bi].at) {
				bi = x
			}
		}
		h.clk.Set(steps[bi].at)
		steps[bi].do()
		steps = append(steps[:bi], steps[bi+1:]...)
	}
	classes := map[string]bool{}
	maxMissed := g.maxMissed()
	restarts := 1 + r.Intn(3)
	fired, missedTotal := 0, 0
	var sample []string
	for inc := 0; inc < restarts; inc++ {
		h.clk.Set(start)
		if err := h.boot(); err != nil {
			viol("init-failed", "CronWorker.Init failed at restart %d: %v", inc, err)
			return
		}
		refs := map[string]*refJC{}
		persisted := map[string]*execution.JobConfig{}
		for _, o := range h.api.List(sim.KJobConfig) {
			jc := o.(*execution.JobConfig)
			key := jc.Namespace + "/" + jc.Name
			s, err := refParse(jc, g)
			if err != nil {
				res.Count("reference_cannot_parse_accepted_spec", 1)
				return
			}
			if !s.active {
				continue
			}
			l, why := c04Bound(jc, start, down)
			classes["bound-"+why] = true
			refs[key] = &refJC{sched: s, cursor: l, uid: string(jc.UID), desc: fmt.Sprintf("%s lastScheduled=%s lastUpdated=%s start=%s maxDowntime=%v bound=%s(%s)", describeSched(jc),
				tsOrNone(jc.Status.LastScheduled), tsOrNone(jc.Spec.Schedule.LastUpdated), start.UTC().Format("15:04:05.000"), down, l.UTC().Format("15:04:05"), why)}
			persisted[key] = jc
			if c := s.next(l); !c.IsZero() && !c.After(start) {
				missedTotal++
				classes["missed-schedules"] = true
			}
		}
		keys := sortedKeys(refs)
		if r.Intn(3) == 0 {
			// between the start and the first tick another controller catches up on a JobConfig's status: the
			// previous process had created the Job of the first missed time but died before lastScheduled was
			// written. A status write changes nothing about what is due (the request is made again, C02 dedups).
			for _, k := range keys {
				ref, jc := refs[k], persisted[k]
				if c := ref.sched.next(ref.cursor); !c.IsZero() && !c.After(start) && r.Intn(2) == 0 {
					cur := jc.DeepCopy()
					ts := metav1.NewTime(c)
					cur.Status.LastScheduled = &ts
					if _, err := h.ctrl.Furiko().ExecutionV1alpha1().JobConfigs(cur.Namespace).UpdateStatus(ctx, cur, metav1.UpdateOptions{}); err == nil {
						classes["status-write-before-first-tick"] = true
					}
				}
			}
			h.deliverAll()
		}
		nticks := 3 + r.Intn(25)
		for tick := 0; tick < nticks; tick++ {
			if tick > 0 || r.Intn(2) == 0 {
				stall := ""
				h.clk.Set(h.clk.T.Add(tickStep(r, &stall) % (20 * time.Minute)))
			}
			now := h.clk.T
			got, _, tickOK := h.tick(0)
			if !tickOK {
				viol("work-does-not-terminate", "CronWorker.Work() did not return at %v (more than %d clock readings in one tick)", h.clk.T.UTC(), h.clk.Reads-1)
				return
			}
			res.Evaluations++
			for _, q := range got {
				fired++
				jc := persisted[q.Key]
				if jc == nil {
					viol("request-for-unscheduled", "restart %d tick %d: request for %s which has no active schedule", inc, tick, q.Key)
					continue
				}
				if ls := jc.Status.LastScheduled; ls != nil && !q.TS.After(ls.Time) {
					viol("re-requested-at-or-before-lastScheduled", "restart %d tick %d: %s requested again for %v although lastScheduled is %v", inc, tick, refs[q.Key].desc, q.TS.UTC().Format("15:04:05"), ls.UTC().Format("15:04:05"))
				}
				if jc.Status.LastScheduled == nil && q.TS.Before(start.Truncate(time.Second)) {
					viol("never-scheduled-back-scheduled", "restart %d tick %d: %s was never scheduled but is requested for %v, before the start %v", inc, tick, refs[q.Key].desc, q.TS.UTC().Format("15:04:05"), start.UTC().Format("15:04:05"))
				}
				if q.TS.After(now) {
					viol("early", "restart %d tick %d: %s requested for %v at %v", inc, tick, q.Key, q.TS.UTC(), now.UTC())
				}
			}
			for _, k := range keys {
				ref := refs[k]
				exp, capped := ref.sched.expectTick(&ref.cursor, now, maxMissed)
				if capped {
					classes["cap-hit"] = true
				}
				gotK := reqTimes(got, k)
				if len(gotK) > 0 {
					ref.lastTS = gotK[len(gotK)-1]
				}
				if fmt.Sprint(unixList(gotK)) != fmt.Sprint(unixList(exp)) {
					sig := "catch-up-mismatch"
					if tick > 0 {
						sig = "stream-mismatch-after-catch-up"
					}
					viol(sig, "restart %d tick %d at %v: %s expected %v got %v (maxMissedSchedules %d)", inc, tick, now.UTC().Format("15:04:05.000"), ref.desc, fmtTimes(exp), fmtTimes(gotK), maxMissed)
					ref.cursor = now
					if len(gotK) > 0 && gotK[len(gotK)-1].After(now) {
						ref.cursor = gotK[len(gotK)-1]
					}
				}
			}
		}
		if len(sample) < 3 {
			for _, k := range keys {
				sample = append(sample, refs[k].desc)
			}
		}
		// what the JobConfig controller persists before the next crash: the latest schedule time, or a lagging one, or nothing new
		for _, k := range keys {
			ref := refs[k]
			if ref.lastTS.IsZero() || r.Intn(4) == 0 {
				continue
			}
			ns, name, _ := strings.Cut(k, "/")
			jcs := h.ctrl.Furiko().ExecutionV1alpha1().JobConfigs(ns)
			if cur, err := jcs.Get(ctx, name, metav1.GetOptions{}); err == nil {
				if cur.Status.LastScheduled == nil || cur.Status.LastScheduled.Time.Before(ref.lastTS) {
					ts := metav1.NewTime(ref.lastTS)
					cur.Status.LastScheduled = &ts
					_, _ = jcs.UpdateStatus(ctx, cur, metav1.UpdateOptions{})
				}
			}
		}
		// downtime: below, at and above the threshold
		dt := []time.Duration{time.Second, down - time.Second, down, down + time.Second, 3 * down, time.Duration(r.Intn(7200)) * time.Second}[r.Intn(6)]
		if dt <= 0 {
			dt = time.Second
		}
		switch {
		case dt > down:
			classes["downtime-above-threshold"] = true
		case dt == down:
			classes["downtime-at-threshold"] = true
		default:
			classes["downtime-below-threshold"] = true
		}
		start = h.clk.T.Add(dt)
		if inc+1 < restarts {
			classes["second-restart"] = true
		}
	}
	res.Count("requests_observed", fired)
	res.Count("jobconfigs_with_missed_schedules_at_restart", missedTotal)
	if missedTotal > 0 {
		var cl []string
		for c := range classes {
			cl = append(cl, c)
			res.Count("class_"+c, 1)
		}
		sortStrings(cl)
		res.MarkDistinct(fmt.Sprintf("%v|%d|%d|%v", cl, njc, restarts, g.MaxDowntime))
		res.Sample(map[string]interface{}{"case": i, "restarts": restarts, "requests": fired, "classes": cl, "jobconfigs_at_restart": head(sample, 4),
			"config": fmt.Sprintf("maxDowntimeThresholdSeconds=%d maxMissedSchedules=%d", g.MaxDowntime, maxMissed)}, 3)
	}
}

func tsOrNone(t *metav1.Time) string {
	if t == nil || t.IsZero() {
		return "none"
	}
	return t.UTC().Format("15:04:05")
}

func init() {
	core.Register(&core.Check{
		ID: "C04", Level: "fault_enumeration",
		Rule: "seeded persisted states produced by a real history (1-5 JobConfigs created and re-scheduled through the real webhooks at chosen instants so that spec.schedule.lastUpdated is what the mutation stamps, status.lastScheduled written at chosen instants, notBefore/notAfter windows) with instants placed exactly at, one second before and after the downtime threshold and each other; maxDowntimeThresholdSeconds in {0(default),1,60,300,3600,86400}, maxMissedSchedules in {default,1,5,100}; then 1-3 crash/restart cycles: a fresh production cron controller (cache from a full list, Init) is started at an instant swept around the schedule (sub-second offsets, downtime below / at / above the threshold) and ticked 3-27 times; " +
			"non-trivial = at least one JobConfig had a due time between its lower bound and the restart instant; distinct = distinct (bound classes, downtime classes, population size, restarts, threshold)",
		Assumptions: []string{"end-to-end crash/restart with the JobConfig controller maintaining lastScheduled is exercised by the C02/C20 simulations (monitor C04 there) and by this check's e2e phase", "cronexpr.Next trusted as in C01"},
		Cases:       tierN(1500, 120000),
		Run:         runC04,
		Phases:      []core.Phase{{Name: "e2e", Run: c04E2E, Count: tierN(4, 16)}},
		MinDistinct: 5,
	})
}

// c04E2E: end-to-end crash/restart of the whole controller set (cron worker, cron reconciler,
// JobConfig controller maintaining status.lastScheduled) in the deterministic simulation; the
// monitor compares every schedule request of a restarted controller with what was persisted at
// its start.
func c04E2E(env *core.Env, res *core.Result) {
	silenceLogs()
	n := 40
	if env.Tier == "thorough" {
		n = 400
	}
	spec := &simSpec{ID: "C04", EvalKeys: []string{"C04"}, NonTrivial: func(w *sim.World) bool { return w.Mon.Evals["C04"] > 0 }}
	for k := 0; k < n; k++ {
		i := 1000000 + env.From*n + k
		r := env.Rand(i)
		sc := c02Case(env.CaseSeed(i), modes[k%len(modes)])
		sc.Prof.DupRequests = 0
		sc.Prof.DeleteNewest = 3
		sc.Opt.Faults = &sim.RandomFaults{Pct: 6, Kinds: []sim.FaultKind{sim.FCrashBefore, sim.FCrashAfter, sim.F500Before}, R: rand.New(rand.NewSource(sc.Opt.Seed ^ 0x4)), Until: 400, Crashes: 3}
		sc.Note = "crash/restart end to end"
		_ = r
		w := sim.NewWorld(sc.Opt)
		wl := sim.Gen(rand.New(rand.NewSource(sc.Opt.Seed)), sc.Prof)
		w.Script(wl.Ops)
		w.Run()
		w.Mon.Fixpoint()
		res.Cases++
		collect(spec, env, i, sc, w, wl, res)
	}
}
