package checks

import (
	"context"
	"encoding/json"
	"fmt"
	"math/rand"
	"reflect"
	"sort"
	"strings"
	"time"

	jsonpatch "github.com/evanphx/json-patch"
	admissionv1 "k8s.io/api/admission/v1"
	corev1 "k8s.io/api/core/v1"
	apiequality "k8s.io/apimachinery/pkg/api/equality"
	metav1 "k8s.io/apimachinery/pkg/apis/meta/v1"
	"k8s.io/apimachinery/pkg/runtime"
	"k8s.io/apimachinery/pkg/types"
	"k8s.io/utils/pointer"

	configv1alpha1 "github.com/furiko-io/furiko/apis/config/v1alpha1"
	execution "github.com/furiko-io/furiko/apis/execution/v1alpha1"
	"github.com/furiko-io/furiko/pkg/execution/mutation"
	"github.com/furiko-io/furiko/pkg/execution/validation"
	"github.com/furiko-io/furiko/pkg/execution/webhooks/jobconfigmutatingwebhook"
	"github.com/furiko-io/furiko/pkg/execution/webhooks/jobconfigvalidatingwebhook"
	"github.com/furiko-io/furiko/pkg/execution/webhooks/jobmutatingwebhook"
	"github.com/furiko-io/furiko/pkg/execution/webhooks/jobvalidatingwebhook"
	"github.com/furiko-io/furiko/pkg/runtime/controllercontext/mock"
	"github.com/furiko-io/furiko/pkg/utils/ktime"

	"furikoverif/internal/core"
	"furikoverif/internal/sim"
)

// C16: the real mutating webhooks (Webhook.Handle on a real AdmissionRequest) on generated
// raw requests; the returned JSON patch is applied to the raw request bytes with the library
// kube-apiserver uses, and the result is judged against independent expectations.

const c16Finalizer = "execution.furiko.io/delete-dependents-finalizer"

type c16Env struct {
	clk    *ctlClock
	cfg    *mock.Configs
	ctx    *sim.SimContext
	jobMut *jobmutatingwebhook.Webhook
	jobVal interface {
		Handle(context.Context, *admissionv1.AdmissionRequest) (*admissionv1.AdmissionResponse, error)
	}
	jcMut *jobconfigmutatingwebhook.Webhook
	jcVal interface {
		Handle(context.Context, *admissionv1.AdmissionRequest) (*admissionv1.AdmissionResponse, error)
	}
	jcs    []*execution.JobConfig
	jcSnap []string // JSON of the cached JobConfigs as stored: the webhooks must never write to what they read from the cache
	jobCfg *configv1alpha1.JobExecutionConfig
}

var gvkJob = metav1.GroupVersionKind{Group: "execution.furiko.io", Version: "v1alpha1", Kind: "Job"}
var gvkJC = metav1.GroupVersionKind{Group: "execution.furiko.io", Version: "v1alpha1", Kind: "JobConfig"}

func newC16Env(r *rand.Rand) *c16Env {
	silenceLogs()
	e := &c16Env{clk: &ctlClock{T: time.Date(2040, 5, 1, 10, 0, 0, 0, time.UTC)}}
	ktime.Clock, mutation.Clock, validation.Clock = e.clk, e.clk, e.clk
	e.cfg = mock.NewConfigs()
	e.jobCfg = &configv1alpha1.JobExecutionConfig{}
	if r.Intn(3) > 0 {
		e.jobCfg.DefaultTTLSecondsAfterFinished = pointer.Int64([]int64{0, 60, 3600}[r.Intn(3)])
	}
	if r.Intn(3) > 0 {
		e.jobCfg.DefaultPendingTimeoutSeconds = pointer.Int64([]int64{0, 30, 900}[r.Intn(3)])
	}
	e.cfg.SetConfigs(map[configv1alpha1.ConfigName]runtime.Object{configv1alpha1.JobExecutionConfigName: e.jobCfg.DeepCopy()})
	// the effective defaults are the dynamic config layered field by field over the built-in ones (C19)
	if e.jobCfg.DefaultTTLSecondsAfterFinished == nil {
		e.jobCfg.DefaultTTLSecondsAfterFinished = pointer.Int64(3600)
	}
	if e.jobCfg.DefaultPendingTimeoutSeconds == nil {
		e.jobCfg.DefaultPendingTimeoutSeconds = pointer.Int64(900)
	}
	api := sim.NewAPI(func() time.Time { return e.clk.T })
	e.ctx = sim.NewSimContext(api, "webhook", e.cfg)
	_ = e.ctx.Start(context.Background())
	e.jobMut, _ = jobmutatingwebhook.NewWebhook(e.ctx)
	e.jobVal, _ = jobvalidatingwebhook.NewWebhook(e.ctx)
	e.jcMut, _ = jobconfigmutatingwebhook.NewWebhook(e.ctx)
	e.jcVal, _ = jobconfigvalidatingwebhook.NewWebhook(e.ctx)
	// JobConfigs known to the webhook's cache
	for k := 0; k < 4; k++ {
		jc := c16GenJobConfig(r, fmt.Sprintf("cfg%d", k))
		jc.UID = types.UID("uid-" + jc.Name)
		// what is stored went through the JobConfig mutating webhook itself
		if out, ok := e.admitJobConfig(jc, nil); ok {
			out.UID = jc.UID
			if k == 3 {
				// one JobConfig is stored the way it was submitted (from before the defaulting webhook was
				// installed, or while it was not serving): the Job webhook defaults what it copies from it
				out = jc
			}
			e.jcs = append(e.jcs, out)
			e.jcSnap = append(e.jcSnap, normJSON(out))
			_ = e.ctx.Inf.JC.Raw().Add(out)
		}
	}
	return e
}

func c16GenJobConfig(r *rand.Rand, name string) *execution.JobConfig {
	jc := &execution.JobConfig{TypeMeta: metav1.TypeMeta{APIVersion: "execution.furiko.io/v1alpha1", Kind: "JobConfig"},
		ObjectMeta: metav1.ObjectMeta{Name: name, Namespace: "default"}}
	jc.Spec.Concurrency.Policy = allPolicies[r.Intn(3)]
	t := &jc.Spec.Template
	if r.Intn(2) == 0 {
		t.Labels = map[string]string{"tl": "from-template", "shared": "template"}
	}
	if r.Intn(2) == 0 {
		t.Annotations = map[string]string{"ta": "from-template", "shared": "template"}
	}
	t.Spec.TaskTemplate = execution.TaskTemplate{Pod: &execution.PodTemplateSpec{Spec: corev1.PodSpec{Containers: []corev1.Container{{Name: "c", Image: "img:${option.a}", Args: []string{"${jobconfig.name}", "${job.name}"}}}}}}
	if r.Intn(3) == 0 {
		t.Spec.TaskTemplate.Pod.Spec.RestartPolicy = corev1.RestartPolicyOnFailure
	}
	if r.Intn(3) == 0 {
		t.Spec.MaxAttempts = pointer.Int64(int64(1 + r.Intn(4)))
	}
	if r.Intn(3) == 0 {
		t.Spec.TaskPendingTimeoutSeconds = pointer.Int64([]int64{0, 10, 1800}[r.Intn(3)])
	}
	if r.Intn(3) == 0 {
		t.Spec.Parallelism = &execution.ParallelismSpec{WithCount: pointer.Int64(int64(2 + r.Intn(3)))}
		if r.Intn(2) == 0 {
			t.Spec.Parallelism.CompletionStrategy = execution.AnySuccessful
		}
	}
	if r.Intn(4) > 0 {
		n := 1 + r.Intn(3)
		spec := &execution.OptionSpec{}
		for k := 0; k < n; k++ {
			spec.Options = append(spec.Options, c18GenOption(r, c18Names[k]))
		}
		jc.Spec.Option = spec
	}
	if r.Intn(2) == 0 {
		jc.Spec.Schedule = &execution.ScheduleSpec{Cron: &execution.CronSchedule{Expression: []string{"* * * * *", "*/5 * * * *", "0 3 * * *"}[r.Intn(3)]}}
	}
	return jc
}

func applyPatch(raw []byte, resp *admissionv1.AdmissionResponse) ([]byte, error) {
	if len(resp.Patch) == 0 {
		return raw, nil
	}
	p, err := jsonpatch.DecodePatch(resp.Patch)
	if err != nil {
		return nil, err
	}
	return p.Apply(raw)
}

// admitJobConfig runs mutate -> patch -> validate on a typed JobConfig (used to build fixtures).
func (e *c16Env) admitJobConfig(jc, old *execution.JobConfig) (*execution.JobConfig, bool) {
	raw, _ := json.Marshal(jc)
	req := &admissionv1.AdmissionRequest{Operation: admissionv1.Create, Kind: gvkJC, Object: runtime.RawExtension{Raw: raw}}
	if old != nil {
		oraw, _ := json.Marshal(old)
		req.Operation = admissionv1.Update
		req.OldObject = runtime.RawExtension{Raw: oraw}
	}
	resp, err := e.jcMut.Handle(context.Background(), req)
	if err != nil || !resp.Allowed {
		return nil, false
	}
	out, err := applyPatch(raw, resp)
	if err != nil {
		return nil, false
	}
	req.Object = runtime.RawExtension{Raw: out}
	if v, err := e.jcVal.Handle(context.Background(), req); err != nil || !v.Allowed {
		return nil, false
	}
	res := &execution.JobConfig{}
	if json.Unmarshal(out, res) != nil {
		return nil, false
	}
	return res, true
}

// rawVariant rewrites optional parts of the raw JSON the way different clients serialise them:
// omitted, explicit null, empty object / list.
func rawVariant(r *rand.Rand, raw []byte) ([]byte, string) {
	var m map[string]interface{}
	if json.Unmarshal(raw, &m) != nil {
		return raw, "typed"
	}
	var tags []string
	md, _ := m["metadata"].(map[string]interface{})
	sp, _ := m["spec"].(map[string]interface{})
	if r.Intn(2) == 0 {
		delete(m, "status")
		tags = append(tags, "no-status")
	}
	if md != nil && r.Intn(2) == 0 {
		delete(md, "creationTimestamp")
		tags = append(tags, "no-creationTimestamp")
	}
	opt := func(obj map[string]interface{}, key string, empty interface{}) {
		if obj == nil {
			return
		}
		if _, has := obj[key]; has {
			return
		}
		switch r.Intn(4) {
		case 0:
			obj[key] = nil
			tags = append(tags, key+"=null")
		case 1:
			obj[key] = empty
			tags = append(tags, key+"=empty")
		}
	}
	opt(md, "labels", map[string]interface{}{})
	opt(md, "annotations", map[string]interface{}{})
	opt(md, "finalizers", []interface{}{})
	opt(md, "ownerReferences", []interface{}{})
	opt(sp, "substitutions", map[string]interface{}{})
	opt(sp, "startPolicy", map[string]interface{}{})
	if sp != nil {
		if v, ok := sp["type"]; ok && v == "" && r.Intn(2) == 0 {
			delete(sp, "type")
			tags = append(tags, "type-omitted")
		}
	}
	out, err := json.Marshal(m)
	if err != nil {
		return raw, "typed"
	}
	sort.Strings(tags)
	return out, strings.Join(tags, ",")
}

func runC16(env *core.Env, res *core.Result) {
	var e *c16Env
	for i := env.From; i < env.To; i++ {
		res.Cases++
		r := env.Rand(i)
		if e == nil || i%50 == 0 {
			// fresh configuration and JobConfig fixtures every 50 requests; a function of the block, not of
			// where a shard starts, so that a single case replays under the environment it ran in
			e = newC16Env(env.Rand(1<<30 + i/50))
		}
		if r.Intn(4) == 0 {
			c16JobConfigCase(i, r, e, res)
		} else {
			c16JobCase(i, r, e, res)
		}
		for k, jc := range e.jcs {
			if now := normJSON(jc); now != e.jcSnap[k] {
				res.Violate(core.Violation{Prop: "C16", Sig: "cached-jobconfig-mutated", Msg: fmt.Sprintf("handling request %d changed the JobConfig %s held in the informer cache: was %s now %s", i, jc.Name, e.jcSnap[k], now), Case: i})
				e.jcSnap[k] = now
			}
		}
	}
}

func normJSON(v interface{}) string {
	b, _ := json.Marshal(v)
	return string(b)
}

func c16JobCase(i int, r *rand.Rand, e *c16Env, res *core.Result) {
	viol := func(sig, f string, a ...interface{}) {
		res.Violate(core.Violation{Prop: "C16", Sig: sig, Msg: fmt.Sprintf(f, a...), Case: i})
	}
	j := &execution.Job{TypeMeta: metav1.TypeMeta{APIVersion: "execution.furiko.io/v1alpha1", Kind: "Job"}, ObjectMeta: metav1.ObjectMeta{Name: fmt.Sprintf("j%d", i), Namespace: "default"}}
	var jc *execution.JobConfig
	classes := []string{}
	switch x := r.Intn(10); {
	case x < 6 && len(e.jcs) > 0:
		jc = e.jcs[r.Intn(len(e.jcs))]
		j.Spec.ConfigName = jc.Name
		classes = append(classes, "configName")
		if jc.Spec.Option != nil && r.Intn(2) == 0 {
			vals := map[string]interface{}{}
			for _, o := range jc.Spec.Option.Options {
				if r.Intn(2) == 0 {
					vals[o.Name], _, _ = c18GenValue(r, o)
				}
			}
			if r.Intn(2) == 0 {
				b, _ := json.Marshal(vals)
				j.Spec.OptionValues = string(b)
				classes = append(classes, "optionValues-json")
			} else {
				var sb strings.Builder
				for k, v := range vals {
					b, _ := json.Marshal(v)
					fmt.Fprintf(&sb, "%s: %s\n", k, b)
				}
				j.Spec.OptionValues = sb.String()
				classes = append(classes, "optionValues-yaml")
			}
		}
		if r.Intn(3) == 0 {
			j.Spec.Template = &execution.JobTemplate{MaxAttempts: pointer.Int64(9)} // will be overwritten (warning)
			classes = append(classes, "template-overridden")
		}
	case x < 7:
		j.Spec.ConfigName = "does-not-exist"
		classes = append(classes, "configName-missing")
	default:
		j.Spec.Template = &execution.JobTemplate{TaskTemplate: execution.TaskTemplate{Pod: &execution.PodTemplateSpec{Spec: corev1.PodSpec{Containers: []corev1.Container{{Name: "c", Image: "i"}}}}}}
		if r.Intn(2) == 0 {
			j.Spec.Template.MaxAttempts = pointer.Int64(int64(1 + r.Intn(5)))
		}
		if r.Intn(2) == 0 {
			j.Spec.Template.TaskPendingTimeoutSeconds = pointer.Int64([]int64{0, 0, 15, 7200}[r.Intn(4)])
		}
		if r.Intn(3) == 0 {
			j.Spec.Template.Parallelism = &execution.ParallelismSpec{WithCount: pointer.Int64(3)}
		}
		if r.Intn(3) == 0 {
			j.Spec.Template.TaskTemplate.Pod.Spec.RestartPolicy = corev1.RestartPolicyOnFailure
		}
		classes = append(classes, "independent")
	}
	if r.Intn(3) == 0 {
		j.Labels = map[string]string{"mine": "1"}
		if r.Intn(2) == 0 {
			j.Labels["shared"] = "request"
		}
	}
	if r.Intn(3) == 0 {
		j.Annotations = map[string]string{"shared": "request"}
	}
	switch r.Intn(5) {
	case 0:
		j.Finalizers = []string{"other/finalizer"}
		classes = append(classes, "other-finalizer")
	case 1:
		j.Finalizers = []string{c16Finalizer}
		classes = append(classes, "has-finalizer")
	}
	if r.Intn(3) == 0 {
		j.Spec.Type = []execution.JobType{execution.JobTypeAdhoc, execution.JobTypeScheduled}[r.Intn(2)]
	}
	if r.Intn(4) == 0 {
		j.Spec.TTLSecondsAfterFinished = pointer.Int64([]int64{0, 5}[r.Intn(2)])
		classes = append(classes, "ttl-given")
	}
	switch r.Intn(5) {
	case 0:
		j.Spec.StartPolicy = &execution.StartPolicySpec{}
	case 1:
		j.Spec.StartPolicy = &execution.StartPolicySpec{ConcurrencyPolicy: allPolicies[r.Intn(3)]}
		classes = append(classes, "policy-given")
	case 2:
		sa := metav1.NewTime(e.clk.T.Add(time.Hour))
		j.Spec.StartPolicy = &execution.StartPolicySpec{StartAfter: &sa}
	}
	explicit := map[string]string{}
	if r.Intn(2) == 0 {
		for _, k := range []string{"option.a", "option.b", "jobconfig.name", "custom.var", "job.name"} {
			if r.Intn(3) == 0 {
				explicit[k] = "explicit-" + k
				if r.Intn(4) == 0 {
					explicit[k] = "" // the submitter blanks the variable explicitly: still the submitter's value
				}
			}
		}
		if len(explicit) > 0 {
			j.Spec.Substitutions = explicit
			classes = append(classes, "explicit-substitutions")
		}
	}
	typedRaw, _ := json.Marshal(j)
	raw, variant := rawVariant(r, typedRaw)
	req := &admissionv1.AdmissionRequest{Operation: admissionv1.Create, Kind: gvkJob, Name: j.Name, Namespace: j.Namespace, Object: runtime.RawExtension{Raw: raw}}
	resp, err := e.jobMut.Handle(context.Background(), req)
	res.Evaluations++
	if err != nil {
		viol("webhook-error", "mutating webhook failed on a well-typed request: %v; request=%s", err, raw)
		return
	}
	if !resp.Allowed {
		res.Count("rejected_by_mutation", 1)
		return
	}
	out, perr := applyPatch(raw, resp)
	// validation decides whether the request is admitted at all
	vreq := *req
	if perr == nil {
		vreq.Object = runtime.RawExtension{Raw: out}
	}
	admitted := false
	if perr == nil {
		if v, verr := e.jobVal.Handle(context.Background(), &vreq); verr == nil && v.Allowed {
			admitted = true
		}
	} else {
		// would the defaulted object have been admitted? (typed path)
		want := &execution.Job{}
		_ = json.Unmarshal(raw, want)
		e.jobMut.Patch(req, nil, want)
		wraw, _ := json.Marshal(want)
		vreq.Object = runtime.RawExtension{Raw: wraw}
		if v, verr := e.jobVal.Handle(context.Background(), &vreq); verr == nil && v.Allowed {
			admitted = true
		}
	}
	if !admitted {
		res.Count("rejected_by_validation", 1)
		return
	}
	res.Count("admitted_jobs", 1)
	if perr != nil {
		viol("patch-does-not-apply", "the patch returned for an admitted request does not apply to the submitted object: %v; request=%s patch=%s", perr, raw, resp.Patch)
		return
	}
	// (1) patch faithfulness
	want := &execution.Job{}
	_ = json.Unmarshal(raw, want)
	e.jobMut.Patch(req, nil, want)
	got := &execution.Job{}
	if err := json.Unmarshal(out, got); err != nil {
		viol("patched-object-undecodable", "patched object cannot be decoded: %v", err)
		return
	}
	if normJSON(want) != normJSON(got) {
		viol("patch-unfaithful", "patch applied to the raw request differs from the defaulted object (variant %s)\n want=%s\n got =%s\n raw =%s\n patch=%s", variant, normJSON(want), out, raw, resp.Patch)
	}
	// (2) idempotence
	req2 := &admissionv1.AdmissionRequest{Operation: admissionv1.Create, Kind: gvkJob, Name: j.Name, Namespace: j.Namespace, Object: runtime.RawExtension{Raw: out}}
	if resp2, err := e.jobMut.Handle(context.Background(), req2); err != nil || !resp2.Allowed {
		viol("resubmission-rejected", "re-submitting the defaulted object is rejected: %v %v; object=%s", err, resp2, out)
	} else if len(resp2.Patch) > 0 {
		viol("not-idempotent", "re-submitting the defaulted object yields a further patch %s; object=%s", resp2.Patch, out)
	}
	// (4) defaults every Job carries
	nfin := 0
	for _, f := range got.Finalizers {
		if f == c16Finalizer {
			nfin++
		}
	}
	if nfin != 1 {
		viol("finalizer", "admitted Job carries the delete-dependents finalizer %d times (finalizers %v)", nfin, got.Finalizers)
	}
	for _, f := range j.Finalizers {
		found := false
		for _, g := range got.Finalizers {
			found = found || f == g
		}
		if !found {
			viol("finalizer-dropped", "finalizer %s of the request was dropped (now %v)", f, got.Finalizers)
		}
	}
	wantType := j.Spec.Type
	if wantType == "" {
		wantType = execution.JobTypeAdhoc
	}
	if got.Spec.Type != wantType {
		viol("type-default", "spec.type is %q, expected %q", got.Spec.Type, wantType)
	}
	wantTTL := j.Spec.TTLSecondsAfterFinished
	if wantTTL == nil {
		wantTTL = e.jobCfg.DefaultTTLSecondsAfterFinished
	}
	if !reflect.DeepEqual(got.Spec.TTLSecondsAfterFinished, wantTTL) {
		viol("ttl-default", "ttlSecondsAfterFinished is %v, expected %v (request %v, config default %v)", p64(got.Spec.TTLSecondsAfterFinished), p64(wantTTL), p64(j.Spec.TTLSecondsAfterFinished), p64(e.jobCfg.DefaultTTLSecondsAfterFinished))
	}
	// template expectations
	var base *execution.JobTemplate
	if jc != nil {
		base = jc.Spec.Template.Spec.DeepCopy()
	} else {
		base = j.Spec.Template.DeepCopy()
	}
	if base.MaxAttempts == nil {
		base.MaxAttempts = pointer.Int64(1)
	}
	if base.TaskPendingTimeoutSeconds == nil {
		base.TaskPendingTimeoutSeconds = e.jobCfg.DefaultPendingTimeoutSeconds
	}
	if base.Parallelism != nil && base.Parallelism.CompletionStrategy == "" {
		base.Parallelism.CompletionStrategy = execution.AllSuccessful
	}
	if base.TaskTemplate.Pod != nil && base.TaskTemplate.Pod.Spec.RestartPolicy == "" {
		base.TaskTemplate.Pod.Spec.RestartPolicy = corev1.RestartPolicyNever
	}
	if got.Spec.Template == nil || !apiequality.Semantic.DeepEqual(got.Spec.Template, base) {
		sig := "template-defaults"
		if jc != nil {
			sig = "template-not-jobconfigs"
		}
		viol(sig, "admitted Job's template is %s, expected %s (maxAttempts default 1, pending timeout default %v, restartPolicy Never, strategy AllSuccessful)", normJSON(got.Spec.Template), normJSON(base), p64(e.jobCfg.DefaultPendingTimeoutSeconds))
	}
	// (3) configName expansion
	if jc != nil {
		if got.Spec.ConfigName != "" {
			viol("configName-kept", "spec.configName is still %q", got.Spec.ConfigName)
		}
		ctrlRefs := 0
		for _, o := range got.OwnerReferences {
			if o.Controller != nil && *o.Controller {
				ctrlRefs++
				if o.UID != jc.UID || o.Name != jc.Name || o.Kind != "JobConfig" {
					viol("owner-reference", "controller owner reference is %s/%s (%s), expected JobConfig %s (%s)", o.Kind, o.Name, o.UID, jc.Name, jc.UID)
				}
			}
		}
		if ctrlRefs != 1 {
			viol("owner-reference", "admitted Job has %d controller owner references, expected exactly one", ctrlRefs)
		}
		if got.Labels["execution.furiko.io/job-config-uid"] != string(jc.UID) {
			viol("uid-label", "job-config-uid label is %q, expected %q", got.Labels["execution.furiko.io/job-config-uid"], jc.UID)
		}
		wantPol := jc.Spec.Concurrency.Policy
		if j.Spec.StartPolicy != nil && j.Spec.StartPolicy.ConcurrencyPolicy != "" {
			wantPol = j.Spec.StartPolicy.ConcurrencyPolicy
		}
		if got.Spec.StartPolicy == nil || got.Spec.StartPolicy.ConcurrencyPolicy != wantPol {
			viol("concurrency-policy", "start policy is %s, expected concurrency policy %q (request %s, JobConfig %q)", normJSON(got.Spec.StartPolicy), wantPol, normJSON(j.Spec.StartPolicy), jc.Spec.Concurrency.Policy)
		}
		if j.Spec.StartPolicy != nil && j.Spec.StartPolicy.StartAfter != nil && (got.Spec.StartPolicy == nil || !got.Spec.StartPolicy.StartAfter.Equal(j.Spec.StartPolicy.StartAfter)) {
			viol("startAfter-lost", "startAfter of the request was not kept")
		}
		for k, v := range jc.Spec.Template.Labels {
			wantV := v
			if rv, ok := j.Labels[k]; ok {
				wantV = rv
			}
			if got.Labels[k] != wantV {
				viol("labels-merge", "label %s is %q, expected %q (request wins over the JobConfig template)", k, got.Labels[k], wantV)
			}
		}
		for k, v := range jc.Spec.Template.Annotations {
			wantV := v
			if rv, ok := j.Annotations[k]; ok {
				wantV = rv
			}
			if got.Annotations[k] != wantV {
				viol("annotations-merge", "annotation %s is %q, expected %q", k, got.Annotations[k], wantV)
			}
		}
		// substitutions: explicit > evaluated option > jobconfig context
		for k, v := range explicit {
			if got.Spec.Substitutions[k] != v {
				viol("substitution-precedence", "substitution %s is %q although the request set it to %q explicitly", k, got.Spec.Substitutions[k], v)
			}
		}
		for k, v := range map[string]string{"jobconfig.name": jc.Name, "jobconfig.namespace": jc.Namespace, "jobconfig.uid": string(jc.UID)} {
			if _, ok := explicit[k]; ok {
				continue
			}
			if got.Spec.Substitutions[k] != v {
				viol("jobconfig-context", "substitution %s is %q, expected %q", k, got.Spec.Substitutions[k], v)
			}
		}
		if jc.Spec.Option != nil {
			for _, o := range jc.Spec.Option.Options {
				if _, ok := got.Spec.Substitutions["option."+o.Name]; !ok {
					viol("option-missing", "no substitution for option %s of the JobConfig in the admitted Job (substitutions %v)", o.Name, got.Spec.Substitutions)
				}
			}
		}
	}
	if len(explicit) > 0 && jc == nil {
		for k, v := range explicit {
			if got.Spec.Substitutions[k] != v {
				viol("substitution-precedence", "substitution %s of an independent Job changed from %q to %q", k, v, got.Spec.Substitutions[k])
			}
		}
	}
	// update of the admitted Job: no finalizer is added back, defaults stay, patch faithful and idempotent
	if r.Intn(3) == 0 {
		c16JobUpdate(i, r, e, res, got)
		classes = append(classes, "update")
	} else if jc == nil && j.Spec.ConfigName == "" && r.Intn(2) == 0 {
		c16UndefaultedUpdate(i, e, res, j, got)
		classes = append(classes, "update-of-undefaulted")
	}
	if len(resp.Patch) > 0 {
		sort.Strings(classes)
		res.MarkDistinct("job|" + strings.Join(classes, ",") + "|" + variant)
		res.Sample(map[string]interface{}{"case": i, "kind": "Job create", "classes": classes, "raw_variant": variant, "request": json.RawMessage(raw), "patch": json.RawMessage(resp.Patch)}, 3)
	}
}

func p64(p *int64) string {
	if p == nil {
		return "unset"
	}
	return fmt.Sprint(*p)
}

func c16JobUpdate(i int, r *rand.Rand, e *c16Env, res *core.Result, cur *execution.Job) {
	viol := func(sig, f string, a ...interface{}) {
		res.Violate(core.Violation{Prop: "C16", Sig: sig, Msg: fmt.Sprintf(f, a...), Case: i})
	}
	old := cur.DeepCopy()
	old.UID = "job-uid"
	nw := old.DeepCopy()
	removedFin := false
	switch r.Intn(3) {
	case 0:
		nw.Finalizers = nil // e.g. the controller releasing the Job during deletion
		removedFin = true
	case 1:
		k := metav1.NewTime(e.clk.T.Add(time.Minute))
		nw.Spec.KillTimestamp = &k
	default:
		if nw.Labels == nil {
			nw.Labels = map[string]string{}
		}
		nw.Labels["edited"] = "1"
	}
	oraw, _ := json.Marshal(old)
	nraw, _ := json.Marshal(nw)
	req := &admissionv1.AdmissionRequest{Operation: admissionv1.Update, Kind: gvkJob, Name: nw.Name, Namespace: nw.Namespace, Object: runtime.RawExtension{Raw: nraw}, OldObject: runtime.RawExtension{Raw: oraw}}
	resp, err := e.jobMut.Handle(context.Background(), req)
	res.Evaluations++
	if err != nil || !resp.Allowed {
		return
	}
	out, err := applyPatch(nraw, resp)
	if err != nil {
		viol("patch-does-not-apply", "update: patch does not apply: %v", err)
		return
	}
	got := &execution.Job{}
	_ = json.Unmarshal(out, got)
	if removedFin {
		for _, f := range got.Finalizers {
			if f == c16Finalizer {
				viol("finalizer-added-on-update", "an update that removed the delete-dependents finalizer got it added back by the mutating webhook")
			}
		}
	}
	if len(resp.Patch) > 0 {
		viol("update-of-defaulted-object-patched", "updating an already defaulted Job yields a patch: %s", resp.Patch)
	}
}

// c16UndefaultedUpdate: the stored Job is the object as it was submitted (it got in while the webhook was not
// serving); an update that only touches metadata must come back defaulted exactly like the create did.
func c16UndefaultedUpdate(i int, e *c16Env, res *core.Result, submitted, created *execution.Job) {
	viol := func(sig, f string, a ...interface{}) {
		res.Violate(core.Violation{Prop: "C16", Sig: sig, Msg: fmt.Sprintf(f, a...), Case: i})
	}
	old := submitted.DeepCopy()
	old.UID = "job-uid"
	nw := old.DeepCopy()
	if nw.Labels == nil {
		nw.Labels = map[string]string{}
	}
	nw.Labels["edited"] = "1"
	oraw, _ := json.Marshal(old)
	nraw, _ := json.Marshal(nw)
	req := &admissionv1.AdmissionRequest{Operation: admissionv1.Update, Kind: gvkJob, Name: nw.Name, Namespace: nw.Namespace, Object: runtime.RawExtension{Raw: nraw}, OldObject: runtime.RawExtension{Raw: oraw}}
	resp, err := e.jobMut.Handle(context.Background(), req)
	res.Evaluations++
	if err != nil || !resp.Allowed {
		return
	}
	out, err := applyPatch(nraw, resp)
	if err != nil {
		viol("patch-does-not-apply", "update of an undefaulted Job: patch does not apply: %v", err)
		return
	}
	got := &execution.Job{}
	_ = json.Unmarshal(out, got)
	if got.Spec.Type != created.Spec.Type {
		viol("update-not-defaulted", "update of an undefaulted stored Job: spec.type is %q, the create was defaulted to %q", got.Spec.Type, created.Spec.Type)
	}
	if normJSON(got.Spec.Template) != normJSON(created.Spec.Template) {
		viol("update-not-defaulted", "update of an undefaulted stored Job: the template is %s, the create was defaulted to %s", normJSON(got.Spec.Template), normJSON(created.Spec.Template))
	}
	if normJSON(got.Spec.TTLSecondsAfterFinished) != normJSON(created.Spec.TTLSecondsAfterFinished) {
		viol("update-not-defaulted", "update of an undefaulted stored Job: ttlSecondsAfterFinished is %s, the create was defaulted to %s", normJSON(got.Spec.TTLSecondsAfterFinished), normJSON(created.Spec.TTLSecondsAfterFinished))
	}
}

func c16JobConfigCase(i int, r *rand.Rand, e *c16Env, res *core.Result) {
	viol := func(sig, f string, a ...interface{}) {
		res.Violate(core.Violation{Prop: "C16", Sig: sig, Msg: fmt.Sprintf(f, a...), Case: i})
	}
	now := e.clk.T
	jc := c16GenJobConfig(r, fmt.Sprintf("n%d", i))
	classes := []string{"jobconfig"}
	given := (*metav1.Time)(nil)
	if jc.Spec.Schedule != nil {
		switch r.Intn(4) {
		case 0:
			t := metav1.NewTime(now.Add(-time.Duration(1+r.Intn(5000)) * time.Second))
			given = &t
			classes = append(classes, "lastUpdated-past")
		case 1:
			t := metav1.NewTime(now.Add(time.Duration(1+r.Intn(5000)) * time.Second))
			given = &t
			classes = append(classes, "lastUpdated-future")
		}
		jc.Spec.Schedule.LastUpdated = given
	}
	typedRaw, _ := json.Marshal(jc)
	raw, variant := rawVariant(r, typedRaw)
	req := &admissionv1.AdmissionRequest{Operation: admissionv1.Create, Kind: gvkJC, Name: jc.Name, Namespace: jc.Namespace, Object: runtime.RawExtension{Raw: raw}}
	resp, err := e.jcMut.Handle(context.Background(), req)
	res.Evaluations++
	if err != nil {
		viol("webhook-error", "JobConfig mutating webhook failed: %v", err)
		return
	}
	if !resp.Allowed {
		return
	}
	out, perr := applyPatch(raw, resp)
	if perr != nil {
		viol("patch-does-not-apply", "JobConfig create: patch does not apply: %v; request=%s patch=%s", perr, raw, resp.Patch)
		return
	}
	vreq := *req
	vreq.Object = runtime.RawExtension{Raw: out}
	if v, verr := e.jcVal.Handle(context.Background(), &vreq); verr != nil || !v.Allowed {
		res.Count("rejected_by_validation", 1)
		return
	}
	res.Count("admitted_jobconfigs", 1)
	want := &execution.JobConfig{}
	_ = json.Unmarshal(raw, want)
	e.jcMut.Patch(req, nil, want)
	got := &execution.JobConfig{}
	_ = json.Unmarshal(out, got)
	if normJSON(want) != normJSON(got) {
		viol("patch-unfaithful", "JobConfig create: patch applied to the raw request differs from the defaulted object\n want=%s\n got =%s", normJSON(want), out)
	}
	req2 := &admissionv1.AdmissionRequest{Operation: admissionv1.Create, Kind: gvkJC, Object: runtime.RawExtension{Raw: out}}
	if resp2, err := e.jcMut.Handle(context.Background(), req2); err == nil && resp2.Allowed && len(resp2.Patch) > 0 {
		viol("not-idempotent", "JobConfig create: re-submitting the defaulted object yields a further patch %s", resp2.Patch)
	}
	// lastUpdated on create: stamped with now unless a later time was given
	if jc.Spec.Schedule != nil {
		lu := got.Spec.Schedule.LastUpdated
		switch {
		case lu == nil:
			viol("lastUpdated-not-stamped", "JobConfig created with a schedule has no lastUpdated")
		case given != nil && given.After(now):
			if !lu.Equal(given) {
				viol("lastUpdated-moved-backwards", "lastUpdated given as %v (future) became %v", given.UTC(), lu.UTC())
			}
		case !lu.Time.Equal(now.Truncate(time.Second)) && !lu.Time.Equal(now):
			viol("lastUpdated-not-stamped", "JobConfig created at %v has lastUpdated %v (given: %s)", now.UTC(), lu.UTC(), tsOrNone(given))
		}
	} else if got.Spec.Schedule != nil {
		viol("schedule-invented", "a JobConfig without schedule got one from the mutating webhook")
	}
	// template defaults: maxAttempts and pending timeout, but no task-template defaults on the JobConfig
	if got.Spec.Template.Spec.MaxAttempts == nil {
		viol("jobconfig-template-defaults", "JobConfig template has no maxAttempts after defaulting")
	}
	if jc.Spec.Template.Spec.TaskPendingTimeoutSeconds != nil && !reflect.DeepEqual(got.Spec.Template.Spec.TaskPendingTimeoutSeconds, jc.Spec.Template.Spec.TaskPendingTimeoutSeconds) {
		viol("pending-timeout-overwritten", "explicit taskPendingTimeoutSeconds %v became %v", p64(jc.Spec.Template.Spec.TaskPendingTimeoutSeconds), p64(got.Spec.Template.Spec.TaskPendingTimeoutSeconds))
	}
	// update: lastUpdated stamped iff the schedule (ignoring lastUpdated) changed
	e.clk.Set(now.Add(time.Duration(10+r.Intn(600)) * time.Second))
	defer e.clk.Set(now)
	now2 := e.clk.T
	old := got.DeepCopy()
	nw := old.DeepCopy()
	changed := false
	switch r.Intn(7) {
	case 0:
		if nw.Spec.Schedule != nil {
			nw.Spec.Schedule.Cron.Expression = "*/7 * * * *"
			changed = true
		}
	case 1:
		if nw.Spec.Schedule != nil {
			nw.Spec.Schedule.Disabled = !nw.Spec.Schedule.Disabled
			changed = true
		}
	case 2:
		if nw.Spec.Schedule != nil {
			t := metav1.NewTime(now2.Add(time.Hour).Truncate(time.Second))
			nw.Spec.Schedule.Constraints = &execution.ScheduleContraints{NotBefore: &t}
			changed = true
		}
	case 3:
		if nw.Spec.Schedule == nil {
			nw.Spec.Schedule = &execution.ScheduleSpec{Cron: &execution.CronSchedule{Expression: "0 * * * *"}}
			changed = true
		} else {
			nw.Spec.Schedule.Cron.Timezone = "Asia/Singapore"
			changed = true
		}
	case 4:
		nw.Labels = map[string]string{"x": "y"}
	case 5:
		nw.Spec.Concurrency.Policy = allPolicies[r.Intn(3)]
	default:
		nw.Spec.Template.Spec.MaxAttempts = pointer.Int64(2)
	}
	// what the client submits as lastUpdated on the update: the stored value (read-modify-write), nothing
	// (a re-applied manifest), a past value, or a future value
	var submitted *metav1.Time
	subClass := "stored"
	if nw.Spec.Schedule != nil {
		submitted = nw.Spec.Schedule.LastUpdated
		switch r.Intn(5) {
		case 0:
			submitted, subClass = nil, "omitted"
		case 1:
			t := metav1.NewTime(now2.Add(-time.Duration(1+r.Intn(3000)) * time.Second).Truncate(time.Second))
			submitted, subClass = &t, "past"
		case 2:
			t := metav1.NewTime(now2.Add(time.Duration(1+r.Intn(3000)) * time.Second).Truncate(time.Second))
			submitted, subClass = &t, "future"
		}
		nw.Spec.Schedule.LastUpdated = submitted
	}
	classes = append(classes, fmt.Sprintf("update-schedule-changed=%v", changed), "submitted-lastUpdated="+subClass)
	oraw, _ := json.Marshal(old)
	nraw, _ := json.Marshal(nw)
	ureq := &admissionv1.AdmissionRequest{Operation: admissionv1.Update, Kind: gvkJC, Name: nw.Name, Namespace: nw.Namespace, Object: runtime.RawExtension{Raw: nraw}, OldObject: runtime.RawExtension{Raw: oraw}}
	uresp, err := e.jcMut.Handle(context.Background(), ureq)
	res.Evaluations++
	if err != nil || !uresp.Allowed {
		return
	}
	uout, err := applyPatch(nraw, uresp)
	if err != nil {
		viol("patch-does-not-apply", "JobConfig update: patch does not apply: %v", err)
		return
	}
	ug := &execution.JobConfig{}
	_ = json.Unmarshal(uout, ug)
	if nw.Spec.Schedule != nil {
		after := ug.Spec.Schedule.LastUpdated
		// stamped with "now" exactly when the schedule changed, unless the submitted value lies in the future;
		// otherwise the submitted value is kept as it is
		want := submitted
		if changed && (submitted == nil || !submitted.After(now2)) {
			t := metav1.NewTime(now2.Truncate(time.Second))
			want = &t
		}
		switch {
		case want == nil && after != nil:
			viol("lastUpdated-stamped-without-change", "an update that does not touch the schedule and submits no lastUpdated got one: %v", after.UTC())
		case want != nil && after == nil:
			viol("lastUpdated-not-stamped-on-change", "schedule changed=%v at %v, submitted lastUpdated %s (%s): the admitted object has none", changed, now2.UTC(), tsOrNone(submitted), subClass)
		case want != nil && !after.Time.Equal(want.Time):
			sig := "lastUpdated-wrong-value"
			if changed && after.Time.Before(now2.Truncate(time.Second)) {
				sig = "lastUpdated-not-stamped-on-change"
			} else if !changed {
				sig = "lastUpdated-stamped-without-change"
			}
			viol(sig, "schedule changed=%v at %v, stored lastUpdated %s, submitted %s (%s): admitted object has %v, expected %v", changed, now2.UTC(), tsOrNone(old.Spec.Schedule.LastUpdated), tsOrNone(submitted), subClass, after.UTC(), want.UTC())
		}
	}
	sort.Strings(classes)
	res.MarkDistinct("jc|" + strings.Join(classes, ",") + "|" + variant)
	res.Sample(map[string]interface{}{"case": i, "kind": "JobConfig create+update", "classes": classes, "raw_variant": variant, "request": json.RawMessage(raw), "patch": json.RawMessage(resp.Patch)}, 2)
}

func init() {
	core.Register(&core.Check{
		ID: "C16", Level: "exploration",
		Rule: "each case = one generated Job create (with configName of a JobConfig with options / missing JobConfig / independent with own template; labels, annotations, finalizers, type, TTL, start policy, option values in JSON or YAML, explicit substitutions overlapping every source; followed in a third of the cases by an update of the admitted Job) or one JobConfig create + update (schedule changed or not, lastUpdated given in the past / future / not at all), serialised as the typed object or as a raw variant (fields omitted / null / empty), under generated dynamic-config defaults (set, zero, unset); the real mutating webhook's patch is applied to the raw bytes with evanphx/json-patch, then the real validating webhook decides admission; " +
			"non-trivial = the response carries a patch (Jobs) resp. every JobConfig case; distinct = distinct (operation classes, raw variant)",
		Assumptions: []string{"patch faithfulness and idempotence are judged on requests the whole chain admits", "evaluation of option values themselves is C18's subject; here presence and precedence of substitutions are judged"},
		Cases:       tierN(20000, 600000),
		Run:         runC16,
		MinDistinct: 10,
	})
}
