package checks

import (
	"context"
	"encoding/json"
	"fmt"
	"math/rand"
	"sort"
	"strings"
	"time"

	admissionv1 "k8s.io/api/admission/v1"
	corev1 "k8s.io/api/core/v1"
	metav1 "k8s.io/apimachinery/pkg/apis/meta/v1"
	"k8s.io/apimachinery/pkg/runtime"
	"k8s.io/apimachinery/pkg/types"
	"k8s.io/utils/pointer"

	configv1alpha1 "github.com/furiko-io/furiko/apis/config/v1alpha1"
	execution "github.com/furiko-io/furiko/apis/execution/v1alpha1"
	"github.com/furiko-io/furiko/pkg/execution/taskexecutor/podtaskexecutor"
	"github.com/furiko-io/furiko/pkg/execution/tasks"
	"github.com/furiko-io/furiko/pkg/execution/util/cronschedule"
	"github.com/furiko-io/furiko/pkg/execution/util/jobconfig"
	"github.com/furiko-io/furiko/pkg/execution/util/parallel"

	"furikoverif/internal/core"
)

// C17 (a): whatever the real mutate -> validate chain accepts as a JobConfig must be loadable by
// the cron scheduler, instantiable into a Job that passes the Job chain, and expandable into
// Pods - under every cron dynamic configuration. (b): one-field changes of immutable Job fields
// must be rejected by the Job update chain.

var c17Atoms = []string{"*", "*", "*/5", "0", "1", "59", "60", "H", "H/3", "H(1-5)", "H(5-1)", "H(5-4)", "H(50-10)", "H(7-1)", "H(1-7)", "H(6-7)", "H(12-1)", "H(DEC-JAN)", "H(SAT-SUN)", "H(0-7)", "H(5-1)/2", "?", "L", "1W", "MON", "JAN", "1-5", "5-1", "1,2", "*/0", "0/15", "2#1", "x", "-1", "99", "1-", "@hourly", "@daily", "@every 5m", "1/0", "H/0", "LW", "15W", "6L", "*/60", "2040", "1970", "2100", "7", "0-7", "SUN-SAT", "1-31", "*/31", "12", "0,30"}

// c17HashedRangeLine builds an otherwise unremarkable line of 5, 6 or 7 fields with one hashed range in a field it is
// legal in - numeric, or spelled with month / weekday names in the month / day-of-week field - half of them reversed
// (beginning beyond end; Sunday as 7 counts as 0). Reversed ones must be refused by admission: cronexpr does not
// check them, and what it derives from them panics, never matches or makes Next spin (the fix of b94a737).
func c17HashedRangeLine(r *rand.Rand, quartz bool) string {
	n := 5 + r.Intn(3)
	f := make([]string, n)
	for i := range f {
		f[i] = "*"
	}
	off := 0
	if n == 7 {
		off = 1
		f[0] = []string{"0", "*", "30"}[r.Intn(3)]
	}
	if n >= 6 {
		f[n-1] = []string{"*", "2040", "2040-2041"}[r.Intn(3)]
	}
	f[off] = []string{"0", "*/10", "5"}[r.Intn(3)]
	months := []string{"JAN", "FEB", "MAR", "APR", "MAY", "JUN", "JUL", "AUG", "SEP", "OCT", "NOV", "DEC"}
	days := []string{"SUN", "MON", "TUE", "WED", "THU", "FRI", "SAT"}
	pair := func(lo, hi int, names []string, base int) string {
		a, b := lo+r.Intn(hi-lo+1), lo+r.Intn(hi-lo+1)
		if a > b {
			a, b = b, a
		}
		if r.Intn(2) == 0 && a != b {
			a, b = b, a // reversed
		}
		if names != nil && r.Intn(2) == 0 {
			return fmt.Sprintf("H(%s-%s)", names[a-base], names[b-base])
		}
		return fmt.Sprintf("H(%d-%d)", a, b)
	}
	switch r.Intn(7) {
	case 5:
		// hashed steps: whether cronexpr accepts them in a field whose minimum is 1 depends on the hash ID
		f[off+2] = fmt.Sprintf("H/%d", 2+r.Intn(27))
	case 6:
		f[off+3] = fmt.Sprintf("H/%d", 2+r.Intn(11))
	case 0:
		f[off] = pair(0, 59, nil, 0)
	case 1:
		f[off+1] = pair(0, 23, nil, 0)
	case 2:
		f[off+2] = pair(1, 28, nil, 0)
	case 3:
		f[off+3] = pair(1, 12, months, 1)
	default:
		if quartz {
			f[off+2] = "?"
			f[off+4] = pair(1, 7, nil, 0)
		} else if r.Intn(3) == 0 {
			f[off+4] = fmt.Sprintf("H(%d-7)", r.Intn(7)) // ... to Sunday written as 7
		} else {
			f[off+4] = pair(0, 6, days, 0)
		}
	}
	return strings.Join(f, " ")
}

func c17Cronish(r *rand.Rand, quartz, allowH bool) string {
	if r.Intn(3) == 0 {
		return genExpr(r, quartz, allowH) // well-formed by construction
	}
	if allowH && r.Intn(5) == 0 {
		return c17HashedRangeLine(r, quartz)
	}
	n := []int{1, 4, 5, 5, 5, 6, 6, 7, 7, 8}[r.Intn(10)]
	var f []string
	for i := 0; i < n; i++ {
		f = append(f, c17Atoms[r.Intn(len(c17Atoms))])
	}
	sep := []string{" ", " ", " ", "  ", "\t"}[r.Intn(5)]
	s := strings.Join(f, sep)
	switch r.Intn(12) {
	case 0:
		s = " " + s + " "
	case 1:
		s = s + "\n"
	}
	return s
}

var c17TZ = []string{"", "", "UTC", "Asia/Singapore", "UTC+8", "UTC+08:00", "GMT-7", "UTC+8:00", "utc", "Local", "UTC+25", "UTC+", "Asia/Nowhere", "UTC-0930", "GMT+5:3", "EST", "PST8PDT", "UTC+08:60",
	"+08:00", "Z", " UTC", "UTC ", "Asia/Singapore ", "\tUTC+8", "GMT", "UTC+14", "UTC-12:00", "UTC+5:45", "../etc/passwd", "Etc/GMT+5", "America/Argentina/Buenos_Aires"}

func c17GenJobConfig(r *rand.Rand, name string, quartz, allowH bool) *execution.JobConfig {
	jc := &execution.JobConfig{TypeMeta: metav1.TypeMeta{APIVersion: "execution.furiko.io/v1alpha1", Kind: "JobConfig"},
		ObjectMeta: metav1.ObjectMeta{Name: name, Namespace: "default"}}
	jc.Spec.Concurrency.Policy = allPolicies[r.Intn(3)]
	if r.Intn(6) == 0 {
		jc.Spec.Concurrency.MaxConcurrency = pointer.Int64([]int64{0, 1, 3, -1}[r.Intn(4)])
	}
	if r.Intn(4) == 0 {
		// template metadata copy-pasted from an existing Job, furiko-owned keys included
		jc.Spec.Template.Labels = map[string]string{"app": "x"}
		jc.Spec.Template.Annotations = map[string]string{"note": "y"}
		switch r.Intn(3) {
		case 0:
			jc.Spec.Template.Labels["execution.furiko.io/job-config-uid"] = "11111111-2222-3333-4444-555555555555"
		case 1:
			jc.Spec.Template.Annotations["execution.furiko.io/schedule-time"] = "1600000000"
		}
	}
	t := &jc.Spec.Template.Spec
	t.TaskTemplate = execution.TaskTemplate{Pod: &execution.PodTemplateSpec{Spec: corev1.PodSpec{Containers: []corev1.Container{{Name: "c", Image: "img", Args: []string{"${option.a}", "${task.index_num}", "${task.index_key}"}}}}}}
	switch r.Intn(12) {
	case 0:
		t.TaskTemplate.Pod.Spec.RestartPolicy = corev1.RestartPolicyAlways
	case 1:
		t.TaskTemplate.Pod.Spec.Containers = nil
	case 2:
		t.TaskTemplate.Pod = nil
	case 3:
		t.TaskTemplate.Pod.Spec.Containers[0].Name = "Not_A_DNS_Label"
	}
	if r.Intn(3) == 0 {
		t.MaxAttempts = pointer.Int64([]int64{0, 1, 2, 50, 51, -3}[r.Intn(6)])
	}
	if r.Intn(4) == 0 {
		t.RetryDelaySeconds = pointer.Int64([]int64{-1, 0, 5, 86400}[r.Intn(4)])
	}
	if r.Intn(4) == 0 {
		t.TaskPendingTimeoutSeconds = pointer.Int64([]int64{-1, 0, 30}[r.Intn(3)])
	}
	if r.Intn(3) == 0 {
		p := &execution.ParallelismSpec{}
		switch r.Intn(6) {
		case 0:
			p.WithCount = pointer.Int64([]int64{0, 1, 2, 5, -1}[r.Intn(5)])
		case 1:
			p.WithKeys = [][]string{{"a", "b"}, {"a", "a"}, {""}, {"x", " x"}, {}}[r.Intn(5)]
		case 2:
			p.WithMatrix = []map[string][]string{{"os": {"l", "m"}, "v": {"1"}}, {"os": {}}, {"Bad Key": {"x"}}, {"k": {"a", "a"}}, {"os": {}, "v": {"1", "2"}}, {"a": {"x"}, "b": {}, "c": {"y", "z"}}}[r.Intn(6)]
		case 3:
			p.WithCount = pointer.Int64(2)
			p.WithKeys = []string{"a"}
		default:
			p.WithCount = pointer.Int64(int64(2 + r.Intn(4)))
		}
		p.CompletionStrategy = []execution.ParallelCompletionStrategy{"", execution.AllSuccessful, execution.AnySuccessful, "Some"}[r.Intn(4)]
		t.Parallelism = p
	}
	if r.Intn(3) > 0 {
		n := 1 + r.Intn(3)
		spec := &execution.OptionSpec{}
		for k := 0; k < n; k++ {
			o := c18GenOption(r, c18Names[k])
			if r.Intn(15) == 0 {
				o.Name = []string{"", "has space", "a", "dot.name"}[r.Intn(4)]
			}
			spec.Options = append(spec.Options, o)
		}
		jc.Spec.Option = spec
	}
	if r.Intn(6) > 0 {
		cs := &execution.CronSchedule{Timezone: c17TZ[r.Intn(len(c17TZ))]}
		switch r.Intn(5) {
		case 0:
			cs.Expressions = []string{c17Cronish(r, quartz, allowH), c17Cronish(r, quartz, allowH)}
		case 1:
			// neither / both
			if r.Intn(2) == 0 {
				cs.Expression = c17Cronish(r, quartz, allowH)
				cs.Expressions = []string{c17Cronish(r, quartz, allowH)}
			}
		default:
			cs.Expression = c17Cronish(r, quartz, allowH)
		}
		jc.Spec.Schedule = &execution.ScheduleSpec{Cron: cs, Disabled: r.Intn(6) == 0}
		if r.Intn(5) == 0 {
			nb := metav1.NewTime(time.Date(2040, 5, 1, 9+r.Intn(3), 0, 0, 0, time.UTC))
			na := metav1.NewTime(time.Date(2040, 5, 1, 8+r.Intn(4), 30, 0, 0, time.UTC))
			jc.Spec.Schedule.Constraints = &execution.ScheduleContraints{NotBefore: &nb, NotAfter: &na}
		}
	}
	return jc
}

// c17ValidValue constructs a value that satisfies a required option, if the reference knows one.
func c17ValidValue(o execution.Option) (interface{}, bool) {
	switch o.Type {
	case execution.OptionTypeBool:
		return true, true
	case execution.OptionTypeString:
		return "value", true
	case execution.OptionTypeSelect:
		if o.Select != nil && len(o.Select.Values) > 0 {
			for _, v := range o.Select.Values {
				if strings.TrimSpace(v) != "" {
					return v, true
				}
			}
		}
		if o.Select != nil && o.Select.AllowCustom {
			return "custom", true
		}
	case execution.OptionTypeMulti:
		if o.Multi != nil && len(o.Multi.Values) > 0 {
			return []interface{}{o.Multi.Values[0]}, true
		}
		if o.Multi != nil && o.Multi.AllowCustom {
			return []interface{}{"custom"}, true
		}
	case execution.OptionTypeDate:
		return "2040-05-01T10:00:00Z", true
	}
	return nil, false
}

func runC17(env *core.Env, res *core.Result) {
	var e *c16Env
	var g cronConfigGen
	for i := env.From; i < env.To; i++ {
		res.Cases++
		r := env.Rand(i)
		if e == nil || i%40 == 0 {
			// the environment (dynamic configuration, fixtures) is a function of the block of 40 cases, not of
			// where a shard happens to start, so that a single case replays under the environment it ran in
			br := env.Rand(1<<30 + i/40)
			e = newC16Env(br)
			g = genCronConfig(br)
			e.cfg.SetConfigs(map[configv1alpha1.ConfigName]runtime.Object{configv1alpha1.JobExecutionConfigName: e.jobCfg.DeepCopy(), configv1alpha1.CronExecutionConfigName: g.config()})
		}
		if i%3 == 2 {
			c17Pair(i, r, e, res)
		} else {
			c17Accepted(i, r, e, g, res, env.To-i-1)
		}
	}
}

func c17Accepted(i int, r *rand.Rand, e *c16Env, g cronConfigGen, res *core.Result, remaining int) {
	viol := func(sig, f string, a ...interface{}) {
		res.Violate(core.Violation{Prop: "C17", Sig: sig, Msg: fmt.Sprintf(f, a...), Case: i})
	}
	raw := c17GenJobConfig(r, fmt.Sprintf("some.cfg-%d", i), g.Format == "quartz", g.hashNames())
	res.Evaluations++
	// one third arrive as an update of an existing JobConfig with a plain schedule: what an update may
	// turn a JobConfig into is bound by the same implication as what may be created
	var old *execution.JobConfig
	if r.Intn(3) == 0 {
		plain := raw.DeepCopy()
		plain.Spec.Schedule = &execution.ScheduleSpec{Cron: &execution.CronSchedule{Expression: "0 * * * *"}}
		if o, ok := e.admitJobConfig(plain, nil); ok {
			old = o
			old.UID = types.UID(fmt.Sprintf("uid-%d", i))
			res.Count("jobconfig_update_requests", 1)
		}
	}
	jc, ok := e.admitJobConfig(raw, old)
	if !ok {
		res.Count("jobconfigs_rejected", 1)
		return
	}
	res.Count("jobconfigs_accepted", 1)
	jc.UID = types.UID(fmt.Sprintf("uid-%d", i))
	desc := func() string {
		sp := jc.Spec.Schedule
		if sp == nil {
			return "no schedule"
		}
		return fmt.Sprintf("expression=%q expressions=%q timezone=%q disabled=%v; cron config format=%q hashNames=%v hashFields=%v hashSeconds=%v", sp.Cron.Expression, sp.Cron.Expressions, sp.Cron.Timezone, sp.Disabled,
			g.Format, g.HashNames, g.HashFields, g.HashSeconds)
	}
	safe := func(what string, f func() error) bool {
		okk := true
		func() {
			defer func() {
				if p := recover(); p != nil {
					okk = false
					viol("panic-"+what, "%s panicked on an accepted JobConfig (%s): %v", what, desc(), p)
				}
			}()
			var err error
			if !core.Bounded(60*time.Second, func() { err = f() }) {
				// the call is still spinning after a minute of CPU time: this is what wedges a controller
				viol("accepted-but-"+what+"-never-returns", "admission accepted a JobConfig on which %s does not return (60 s of CPU time spent) (%s)", what, desc())
				core.AbortWorker(res, remaining)
			}
			if err != nil {
				okk = false
				viol("accepted-but-"+what+"-fails", "admission accepted a JobConfig that %s cannot process: %v (%s)", what, err, desc())
			}
		}()
		return okk
	}
	classes := []string{}
	// 1. the cron scheduler can load it (together with a well-behaved neighbour) and bump it
	if jc.Spec.Schedule != nil {
		classes = append(classes, "scheduled")
		neighbour := cronJobConfig("default", "neighbour", []string{"* * * * *"}, "")
		var sched *cronschedule.Schedule
		if safe("cronschedule.New", func() error {
			var err error
			sched, err = cronschedule.New([]*execution.JobConfig{neighbour, jc}, cronschedule.WithConfigLoader(e.cfg), cronschedule.WithClock(e.clk))
			return err
		}) {
			safe("Schedule.Bump", func() error {
				_, err := sched.Bump(jc, e.clk.T)
				return err
			})
			res.Count("accepted_with_schedule_loaded", 1)
		}
	}
	// 2. it can be instantiated
	var job *execution.Job
	if !safe("NewJobFromJobConfig", func() error {
		var err error
		job, err = jobconfig.NewJobFromJobConfig(jc, execution.JobTypeScheduled, e.clk.T)
		return err
	}) {
		return
	}
	// 3. the instantiated Job passes the Job chain (given values for its required options)
	_ = e.ctx.Inf.JC.Raw().Add(jc)
	defer func() { _ = e.ctx.Inf.JC.Raw().Delete(jc) }()
	vals := map[string]interface{}{}
	constructible := true
	if jc.Spec.Option != nil {
		for _, o := range jc.Spec.Option.Options {
			if o.Required {
				v, ok := c17ValidValue(o)
				if !ok {
					constructible = false
				}
				vals[o.Name] = v
				classes = append(classes, "required-"+string(o.Type))
			}
		}
	}
	if !constructible {
		res.Count("required_option_without_constructible_value", 1)
		return
	}
	job.TypeMeta = metav1.TypeMeta{APIVersion: "execution.furiko.io/v1alpha1", Kind: "Job"}
	job.Spec.StartPolicy = &execution.StartPolicySpec{ConcurrencyPolicy: jc.Spec.Concurrency.Policy}
	if len(vals) > 0 {
		b, _ := json.Marshal(vals)
		job.Spec.OptionValues = string(b)
	}
	jraw, _ := json.Marshal(job)
	req := &admissionv1.AdmissionRequest{Operation: admissionv1.Create, Kind: gvkJob, Name: job.Name, Namespace: job.Namespace, Object: runtime.RawExtension{Raw: jraw}}
	var admitted *execution.Job
	safe("Job admission", func() error {
		resp, err := e.jobMut.Handle(context.Background(), req)
		if err != nil {
			return err
		}
		if !resp.Allowed {
			return fmt.Errorf("mutating webhook refused the Job instantiated from it: %v", resp.Result.Message)
		}
		out, err := applyPatch(jraw, resp)
		if err != nil {
			return err
		}
		vreq := *req
		vreq.Object = runtime.RawExtension{Raw: out}
		v, err := e.jobVal.Handle(context.Background(), &vreq)
		if err != nil {
			return err
		}
		if !v.Allowed {
			return fmt.Errorf("validating webhook refused the Job instantiated from it: %v", v.Result.Message)
		}
		admitted = &execution.Job{}
		return json.Unmarshal(out, admitted)
	})
	if admitted == nil {
		return
	}
	res.Count("instantiated_jobs_admitted", 1)
	// 4. every index can be turned into a task object
	admitted.UID = "job-uid"
	if admitted.Spec.Template.Parallelism != nil {
		classes = append(classes, "parallel")
	}
	safe("NewPod", func() error {
		for _, idx := range parallel.GenerateIndexes(admitted.Spec.Template.Parallelism) {
			pod, err := podtaskexecutor.NewPod(admitted, &corev1.PodTemplateSpec{ObjectMeta: admitted.Spec.Template.TaskTemplate.Pod.ObjectMeta, Spec: admitted.Spec.Template.TaskTemplate.Pod.Spec}, tasks.TaskIndex{Retry: 0, Parallel: idx})
			if err != nil {
				return err
			}
			if pod.Name == "" {
				return fmt.Errorf("empty task name")
			}
			res.Count("pods_built", 1)
		}
		return nil
	})
	sort.Strings(classes)
	res.MarkDistinct("accepted|" + strings.Join(classes, ",") + "|" + desc())
	res.Sample(map[string]interface{}{"case": i, "kind": "accepted JobConfig processed", "classes": classes, "schedule": desc()}, 2)
}

// c17Pair: a one-field change of an immutable field must be rejected; controls must pass.
func c17Pair(i int, r *rand.Rand, e *c16Env, res *core.Result) {
	viol := func(sig, f string, a ...interface{}) {
		res.Violate(core.Violation{Prop: "C17", Sig: sig, Msg: fmt.Sprintf(f, a...), Case: i})
	}
	now := e.clk.T
	old := &execution.Job{TypeMeta: metav1.TypeMeta{APIVersion: "execution.furiko.io/v1alpha1", Kind: "Job"}, ObjectMeta: metav1.ObjectMeta{Name: fmt.Sprintf("j%d", i), Namespace: "default", UID: "job-uid",
		Labels: map[string]string{"execution.furiko.io/job-config-uid": "jc-uid-1"}, Finalizers: []string{c16Finalizer}}}
	old.Spec.Type = execution.JobTypeAdhoc
	old.Spec.Template = &execution.JobTemplate{MaxAttempts: pointer.Int64(int64(1 + r.Intn(3))), TaskPendingTimeoutSeconds: pointer.Int64(900),
		TaskTemplate: execution.TaskTemplate{Pod: &execution.PodTemplateSpec{Spec: corev1.PodSpec{RestartPolicy: corev1.RestartPolicyNever, Containers: []corev1.Container{{Name: "c", Image: "img"}}}}}}
	if r.Intn(2) == 0 {
		old.Spec.Template.RetryDelaySeconds = pointer.Int64(int64(r.Intn(30)))
	}
	if r.Intn(2) == 0 {
		old.Spec.Template.Parallelism = &execution.ParallelismSpec{WithCount: pointer.Int64(3), CompletionStrategy: execution.AllSuccessful}
	}
	old.Spec.TTLSecondsAfterFinished = pointer.Int64(3600)
	old.Spec.StartPolicy = &execution.StartPolicySpec{ConcurrencyPolicy: execution.ConcurrencyPolicyEnqueue}
	if r.Intn(2) == 0 {
		old.Spec.OptionValues = `{"a":"x"}`
		old.Spec.Substitutions = map[string]string{"option.a": "x"}
	}
	// life-cycle stage of the old version
	stage := []string{"queued", "started", "finished", "started-deleting"}[r.Intn(4)]
	switch stage {
	case "started-deleting":
		// deleted by the user, held by the finalizer: still the same immutable object
		st := metav1.NewTime(now.Add(-time.Minute))
		old.Status.StartTime = &st
		old.Status.Phase = execution.JobRunning
		dt := metav1.NewTime(now.Add(-5 * time.Second))
		old.DeletionTimestamp = &dt
	case "started":
		st := metav1.NewTime(now.Add(-time.Minute))
		old.Status.StartTime = &st
		old.Status.Phase = execution.JobRunning
	case "finished":
		st := metav1.NewTime(now.Add(-time.Hour))
		old.Status.StartTime = &st
		old.Status.Phase = []execution.JobPhase{execution.JobSucceeded, execution.JobFailed, execution.JobKilled}[r.Intn(3)]
		ft := metav1.NewTime(now.Add(-time.Minute))
		old.Status.Condition.Finished = &execution.JobConditionFinished{FinishTimestamp: ft, Result: execution.JobResultSuccess}
	}
	killStage := []string{"none", "future", "passed", "reached-now"}[r.Intn(4)]
	switch killStage {
	case "reached-now":
		k := metav1.NewTime(now)
		old.Spec.KillTimestamp = &k
	case "future":
		k := metav1.NewTime(now.Add(10 * time.Minute))
		old.Spec.KillTimestamp = &k
	case "passed":
		k := metav1.NewTime(now.Add(-10 * time.Second))
		old.Spec.KillTimestamp = &k
	}
	nw := old.DeepCopy()
	mustReject := true
	var what string
	switch r.Intn(14) {
	case 0:
		nw.Spec.Template.TaskTemplate.Pod.Spec.Containers[0].Image = "other"
		what = "task template"
	case 1:
		if nw.Spec.Template.Parallelism == nil {
			nw.Spec.Template.Parallelism = &execution.ParallelismSpec{WithCount: pointer.Int64(2), CompletionStrategy: execution.AllSuccessful}
		} else if r.Intn(2) == 0 {
			nw.Spec.Template.Parallelism.WithCount = pointer.Int64(4)
		} else {
			nw.Spec.Template.Parallelism = nil
		}
		what = "parallelism"
	case 2:
		nw.Spec.Template.MaxAttempts = pointer.Int64(*old.Spec.Template.MaxAttempts + 1)
		what = "maxAttempts"
	case 3:
		if old.Spec.Template.RetryDelaySeconds == nil {
			nw.Spec.Template.RetryDelaySeconds = pointer.Int64(5)
		} else {
			nw.Spec.Template.RetryDelaySeconds = pointer.Int64(*old.Spec.Template.RetryDelaySeconds + 1)
		}
		what = "retryDelaySeconds"
	case 4:
		nw.Spec.Type = execution.JobTypeScheduled
		what = "type"
	case 5:
		nw.Spec.OptionValues = `{"a":"y"}`
		what = "optionValues"
	case 6:
		nw.Spec.Substitutions = map[string]string{"option.a": "changed"}
		what = "substitutions"
	case 7:
		if r.Intn(2) == 0 {
			nw.Labels["execution.furiko.io/job-config-uid"] = "jc-uid-2"
		} else {
			delete(nw.Labels, "execution.furiko.io/job-config-uid")
		}
		what = "JobConfig UID label"
	case 8, 9:
		switch r.Intn(3) {
		case 0:
			nw.Spec.StartPolicy.ConcurrencyPolicy = execution.ConcurrencyPolicyAllow
		case 1:
			sa := metav1.NewTime(now.Add(time.Hour))
			nw.Spec.StartPolicy.StartAfter = &sa
		default:
			nw.Spec.StartPolicy = &execution.StartPolicySpec{ConcurrencyPolicy: execution.ConcurrencyPolicyForbid}
		}
		what = "start policy (" + stage + ")"
		mustReject = stage != "queued" // started, finished, or started and being deleted
	case 10, 11:
		switch r.Intn(3) {
		case 0:
			k := metav1.NewTime(now.Add(5 * time.Minute))
			nw.Spec.KillTimestamp = &k
		case 1:
			nw.Spec.KillTimestamp = nil
			if killStage == "none" {
				k := metav1.NewTime(now)
				nw.Spec.KillTimestamp = &k
			}
		default:
			k := metav1.NewTime(now.Add(-time.Hour))
			nw.Spec.KillTimestamp = &k
		}
		what = "kill timestamp (" + killStage + ")"
		mustReject = killStage == "passed" || killStage == "reached-now"
	default:
		nw.Labels["note"] = "edited"
		what = "an ordinary label"
		mustReject = false
	}
	oraw, _ := json.Marshal(old)
	nraw, _ := json.Marshal(nw)
	req := &admissionv1.AdmissionRequest{Operation: admissionv1.Update, Kind: gvkJob, Name: nw.Name, Namespace: nw.Namespace, Object: runtime.RawExtension{Raw: nraw}, OldObject: runtime.RawExtension{Raw: oraw}}
	res.Evaluations++
	allowed := false
	var reason string
	if resp, err := e.jobMut.Handle(context.Background(), req); err == nil && resp.Allowed {
		if out, err := applyPatch(nraw, resp); err == nil {
			vreq := *req
			vreq.Object = runtime.RawExtension{Raw: out}
			if v, err := e.jobVal.Handle(context.Background(), &vreq); err == nil {
				allowed = v.Allowed
				if v.Result != nil {
					reason = v.Result.Message
				}
			}
		}
	}
	switch {
	case mustReject && allowed:
		viol("immutable-field-changed", "an update changing only the %s of a Job (stage %s, kill timestamp %s) was admitted\n old=%s\n new=%s", what, stage, killStage, oraw, nraw)
	case !mustReject && !allowed:
		viol("legal-update-rejected", "an update changing only %s of a Job (stage %s, kill timestamp %s) was rejected: %s", what, stage, killStage, reason)
	}
	if mustReject {
		res.Count("immutable_pairs", 1)
	} else {
		res.Count("control_pairs", 1)
	}
	res.MarkDistinct(fmt.Sprintf("pair|%s|%s|%s", what, stage, killStage))
	res.Sample(map[string]interface{}{"case": i, "kind": "update pair", "changed": what, "stage": stage, "kill": killStage, "must_reject": mustReject}, 2)
}

func init() {
	core.Register(&core.Check{
		ID: "C17", Level: "exploration",
		Rule: "two thirds of the cases: a JobConfig generated near the accept/reject boundary (cron lines assembled from hostile atoms or from the grammar, 5-8 fields, aliases, odd whitespace; 31 timezone spellings incl. padded ones; options of every type with required ones; parallelism shapes incl. degenerate; numeric bounds; pod template variations) goes through the real mutate -> validate chain under a generated cron dynamic configuration (format x hashing flags); if accepted it must be loadable by cronschedule.New next to a healthy neighbour, bumpable, instantiable by NewJobFromJobConfig, the Job (with constructed values for required options) must pass the Job chain and NewPod must succeed for every index, nothing may panic. One third: (old, new) Job pairs differing in exactly one field (task template, parallelism, maxAttempts, retryDelaySeconds, type, optionValues, substitutions, JobConfig UID label, start policy at stage queued/started/finished, kill timestamp none/future/passed, control: ordinary label) through the real update chain; " +
			"non-trivial = an accepted JobConfig resp. every pair; distinct = distinct accepted schedule/shape resp. (field, stage, kill stage)",
		Assumptions: []string{"Kubernetes' own PodTemplateSpec validation is trusted", "required options whose spec admits no value the reference can construct are skipped for the Job-chain clause (counted)"},
		Cases:       tierN(60000, 1500000),
		Run:         runC17,
		MinDistinct: 20,
	})
}
