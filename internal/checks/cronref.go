package checks

// Shared parts of the cron checks (C01, C03, C04): a harness that assembles the
// production CronWorker / InformerWorker / update handler on the simulated API with a
// controllable clock and a recording EnqueueHandler, input generators, and the
// independent reference model (per-JobConfig cursor).

import (
	"context"
	"fmt"
	"furikoverif/internal/core"
	"math/rand"
	"regexp"
	"sort"
	"strconv"
	"strings"
	"time"

	"github.com/furiko-io/cronexpr"
	metav1 "k8s.io/apimachinery/pkg/apis/meta/v1"
	"k8s.io/apimachinery/pkg/runtime"
	"k8s.io/utils/clock"
	"k8s.io/utils/pointer"

	configv1alpha1 "github.com/furiko-io/furiko/apis/config/v1alpha1"
	execution "github.com/furiko-io/furiko/apis/execution/v1alpha1"
	"github.com/furiko-io/furiko/pkg/execution/controllers/croncontroller"
	"github.com/furiko-io/furiko/pkg/execution/mutation"
	"github.com/furiko-io/furiko/pkg/execution/validation"
	"github.com/furiko-io/furiko/pkg/runtime/controllercontext/mock"
	"github.com/furiko-io/furiko/pkg/utils/ktime"

	"furikoverif/internal/sim"
)

// ---------------------------------------------------------------------------
// controllable clock

type livelock struct{ reads int }

// ctlClock is a clock.Clock whose reading is set by the harness. In advancing mode
// every reading moves time forward by Delta (time passes inside a tick); Budget > 0
// bounds the number of readings of one tick (exceeding it means Work() does not terminate).
type ctlClock struct {
	clock.RealClock
	T      time.Time
	Delta  time.Duration
	Reads  int
	Budget int
	Last   time.Time // last reading handed out
}

func (c *ctlClock) Now() time.Time {
	c.Reads++
	if c.Budget > 0 && c.Reads > c.Budget {
		panic(livelock{c.Reads})
	}
	r := c.T
	c.Last = r
	c.T = c.T.Add(c.Delta)
	return r
}
func (c *ctlClock) Since(t time.Time) time.Duration { return c.T.Sub(t) }
func (c *ctlClock) Set(t time.Time)                 { c.T = t }

// ---------------------------------------------------------------------------
// harness

type cronReq struct {
	Key     string // namespace/name
	UID     string
	TS      time.Time
	Reading time.Time // clock reading when the request was handed to the EnqueueHandler
}

type cronRec struct {
	clk *ctlClock
	got []cronReq
}

func (r *cronRec) EnqueueJobConfig(jc *execution.JobConfig, ts time.Time) error {
	r.got = append(r.got, cronReq{Key: jc.Namespace + "/" + jc.Name, UID: string(jc.UID), TS: ts, Reading: r.clk.Last})
	return nil
}

type cronHarness struct {
	clk    *ctlClock
	api    *sim.API
	cfg    *mock.Configs
	ctx    *sim.SimContext
	user   *sim.Clients
	ctrl   *sim.Clients // writes status like the jobconfig controller would
	worker *croncontroller.CronWorker
	rec    *cronRec
	// cache reads of the current tick (every pop looks the JobConfig up): a second progress
	// measure for Work(), which after all may loop without ever reading the clock
	cacheReads, cacheBudget int
}

func newCronHarness(start time.Time, cronCfg *configv1alpha1.CronExecutionConfig) *cronHarness {
	silenceLogs()
	h := &cronHarness{clk: &ctlClock{T: start}}
	ktime.Clock = h.clk
	croncontroller.Clock = h.clk
	mutation.Clock = h.clk
	validation.Clock = h.clk
	h.api = sim.NewAPI(func() time.Time { return h.clk.T })
	h.cfg = mock.NewConfigs()
	if cronCfg != nil {
		h.cfg.SetConfigs(map[configv1alpha1.ConfigName]runtime.Object{configv1alpha1.CronExecutionConfigName: cronCfg})
	}
	adm, err := sim.NewAdmission(h.api, h.cfg)
	if err != nil {
		panic(err)
	}
	h.api.Admit = adm.Admit
	h.user = sim.NewClients(h.api, "user")
	h.ctrl = sim.NewClients(h.api, "jobconfig-controller")
	h.rec = &cronRec{clk: h.clk}
	return h
}

// boot assembles a fresh cron controller (informer handler, update handler, worker) the way
// Controller.Run does, on a cache loaded from a full list, and initialises the worker.
func (h *cronHarness) boot() error {
	h.ctx = sim.NewSimContext(h.api, "ctrl#1", h.cfg)
	for _, inf := range h.ctx.Inf.All() {
		inf.Split = false
	}
	h.ctx.Inf.SetOnRead(func(sim.Kind, string, interface{}, bool) {
		h.cacheReads++
		if h.cacheBudget > 0 && h.cacheReads > h.cacheBudget {
			panic(livelock{h.cacheReads})
		}
	})
	cctx := croncontroller.NewContext(h.ctx)
	croncontroller.NewInformerWorker(cctx, croncontroller.NewUpdateHandler(cctx)).Init()
	for _, inf := range h.ctx.Inf.All() {
		inf.InitialSync(h.api)
	}
	h.worker = croncontroller.NewCronWorker(cctx, h.rec)
	var err error
	if !core.Bounded(60*time.Second, func() { err = h.worker.Init() }) {
		cronHung = true
		return fmt.Errorf("CronWorker.Init does not return (60 s of CPU time spent)")
	}
	return err
}

// cronHung is set when a call into the cron controller was abandoned because it never returned; the goroutine
// running it cannot be stopped, so the worker process ends after the current case (core.AbortWorker).
var cronHung bool

// deliverAll moves every committed JobConfig change into the controller's cache (and through its handlers).
func (h *cronHarness) deliverAll() int {
	n := 0
	for h.ctx.Inf.JC.DeliverOne(h.api) {
		n++
	}
	return n
}

// tick runs one Work() at the current clock setting; ok=false means it did not terminate within the reading budget.
func (h *cronHarness) tick(budget int) (got []cronReq, first time.Time, ok bool) {
	h.rec.got = nil
	h.clk.Reads = 0
	if budget <= 0 {
		budget = 60000 // a frozen clock is read a few times per request: far beyond this means Work() does not return
	}
	h.clk.Budget = budget
	h.cacheReads, h.cacheBudget = 0, 40000
	first = h.clk.T
	ok = true
	func() {
		defer func() {
			if r := recover(); r != nil {
				if _, is := r.(livelock); is {
					ok = false
					return
				}
				panic(r)
			}
		}()
		if !core.Bounded(60*time.Second, h.worker.Work) {
			cronHung = true
			ok = false
		}
	}()
	h.clk.Budget = 0
	h.cacheBudget = 0
	return h.rec.got, first, ok
}

func (h *cronHarness) jcClient(ns string) interface {
	Create(context.Context, *execution.JobConfig, metav1.CreateOptions) (*execution.JobConfig, error)
	Update(context.Context, *execution.JobConfig, metav1.UpdateOptions) (*execution.JobConfig, error)
	Get(context.Context, string, metav1.GetOptions) (*execution.JobConfig, error)
	Delete(context.Context, string, metav1.DeleteOptions) error
} {
	return h.user.Furiko().ExecutionV1alpha1().JobConfigs(ns)
}

// ---------------------------------------------------------------------------
// generators

type cronConfigGen struct {
	Format      string // "" | standard | quartz
	HashNames   *bool
	HashFields  *bool
	HashSeconds *bool
	MaxMissed   *int64
	DefaultTZ   string
	MaxDowntime int64
}

func (g cronConfigGen) config() *configv1alpha1.CronExecutionConfig {
	c := &configv1alpha1.CronExecutionConfig{CronFormat: g.Format, CronHashNames: g.HashNames, CronHashFields: g.HashFields,
		CronHashSecondsByDefault: g.HashSeconds, MaxMissedSchedules: g.MaxMissed, MaxDowntimeThresholdSeconds: g.MaxDowntime}
	if g.DefaultTZ != "" {
		c.DefaultTimezone = pointer.String(g.DefaultTZ)
	}
	return c
}

func (g cronConfigGen) maxMissed() int {
	if g.MaxMissed != nil {
		return int(*g.MaxMissed)
	}
	return 5
}

func (g cronConfigGen) hashNames() bool { return g.HashNames == nil || *g.HashNames }

func genCronConfig(r *rand.Rand) cronConfigGen {
	g := cronConfigGen{}
	switch r.Intn(6) {
	case 0:
		g.Format = "quartz"
	case 1:
		g.Format = "standard"
	}
	if r.Intn(4) == 0 {
		g.HashNames = pointer.Bool(r.Intn(2) == 0)
	}
	if r.Intn(4) == 0 {
		g.HashFields = pointer.Bool(r.Intn(2) == 0)
	}
	if r.Intn(5) == 0 {
		g.HashSeconds = pointer.Bool(r.Intn(2) == 0)
	}
	if r.Intn(3) > 0 {
		g.MaxMissed = pointer.Int64([]int64{1, 2, 5, 50}[r.Intn(4)])
	}
	g.DefaultTZ = []string{"", "", "Asia/Tokyo", "UTC-7", "Europe/Berlin"}[r.Intn(5)]
	return g
}

func genField(r *rand.Rand, lo, hi int, allowH bool) string {
	switch x := r.Intn(14); {
	case x < 4:
		return "*"
	case x < 5:
		return fmt.Sprintf("*/%d", 1+r.Intn(hi-lo+1))
	case x < 7:
		return strconv.Itoa(lo + r.Intn(hi-lo+1))
	case x < 8:
		a := lo + r.Intn(hi-lo+1)
		b := a + r.Intn(hi-a+1)
		return fmt.Sprintf("%d-%d", a, b)
	case x < 9:
		a := lo + r.Intn(hi-lo+1)
		b := a + r.Intn(hi-a+1)
		return fmt.Sprintf("%d-%d/%d", a, b, 1+r.Intn(5))
	case x < 10:
		return fmt.Sprintf("%d/%d", lo+r.Intn(hi-lo+1), 1+r.Intn(hi-lo+1))
	case x < 12 && allowH:
		switch r.Intn(3) {
		case 0:
			return "H"
		case 1:
			a := lo + r.Intn(hi-lo+1)
			b := a + r.Intn(hi-a+1)
			return fmt.Sprintf("H(%d-%d)", a, b)
		default:
			return fmt.Sprintf("H/%d", 2+r.Intn(hi-lo))
		}
	default:
		n := 2 + r.Intn(3)
		var l []string
		for i := 0; i < n; i++ {
			l = append(l, strconv.Itoa(lo+r.Intn(hi-lo+1)))
		}
		return strings.Join(l, ",")
	}
}

var cronAliases = []string{"@hourly", "@daily", "@midnight", "@weekly", "@monthly", "@yearly", "@annually"}

// genExpr generates a cron line of 5, 6 or 7 fields (standard or quartz flavour).
func genExpr(r *rand.Rand, quartz, allowH bool) string {
	if r.Intn(25) == 0 {
		return cronAliases[r.Intn(len(cronAliases))]
	}
	dowLo, dowHi := 0, 6
	if quartz {
		dowLo, dowHi = 1, 7
	}
	f := []string{genField(r, 0, 59, allowH), genField(r, 0, 23, allowH), genField(r, 1, 28, false), genField(r, 1, 12, false), genField(r, dowLo, dowHi, false)}
	if r.Intn(3) > 0 { // frequent firing
		f[2], f[3], f[4] = "*", "*", "*"
	}
	if r.Intn(2) == 0 {
		f[1] = "*"
	}
	if r.Intn(12) == 0 {
		f[3] = []string{"JAN", "MAR-JUN", "FEB,DEC"}[r.Intn(3)]
	}
	if r.Intn(12) == 0 {
		f[4] = []string{"MON", "MON-FRI", "SAT,SUN"}[r.Intn(3)]
	}
	if quartz {
		// quartz wants '?' in one of day-of-month / day-of-week when the other is restricted
		if f[4] != "*" {
			f[2] = "?"
		} else if r.Intn(2) == 0 {
			f[4] = "?"
		}
	}
	e := strings.Join(f, " ")
	// the year field: mostly '*', sometimes bounded - also to years that are over (the expression then has no next time)
	year := "*"
	if r.Intn(6) == 0 {
		year = []string{"2040", "2039", "2038-2039", "2040-2041", "2041", "2039,2040"}[r.Intn(6)]
	}
	switch r.Intn(5) {
	case 0:
		e = e + " " + year // 6 fields: year last
	case 1, 2:
		e = genField(r, 0, 59, allowH) + " " + e + " " + year // 7 fields: seconds first, year last
		if r.Intn(3) == 0 {
			e = "* " + e[strings.Index(e, " ")+1:]
		}
	}
	return e
}

var tzChoices = []string{"", "", "UTC", "Asia/Singapore", "America/New_York", "Europe/London", "Australia/Lord_Howe", "America/St_Johns", "Pacific/Chatham",
	"UTC+8", "UTC-03:30", "GMT+05", "UTC+05:45", "GMT-9", "UTC+1200", "GMT"}

var offRe = regexp.MustCompile(`^(UTC|GMT)([+-])(\d{1,2})(?::?(\d{2}))?$`)

// refLocation is the reference's own timezone resolution: JobConfig value, else config default, else UTC.
func refLocation(tz, def string) (*time.Location, bool) {
	if tz == "" {
		tz = def
	}
	if tz == "" || tz == "UTC" || tz == "GMT" {
		return time.UTC, true
	}
	if m := offRe.FindStringSubmatch(tz); m != nil {
		h, _ := strconv.Atoi(m[3])
		mm := 0
		if m[4] != "" {
			mm, _ = strconv.Atoi(m[4])
		}
		off := h*3600 + mm*60
		if m[2] == "-" {
			off = -off
		}
		return time.FixedZone("ref", off), true
	}
	l, err := time.LoadLocation(tz)
	return l, err == nil
}

// ---------------------------------------------------------------------------
// reference model

// refSched is the reference's reading of one version of a JobConfig's schedule.
type refSched struct {
	exprs  []*cronexpr.Expression
	lines  []string
	loc    *time.Location
	nbf    *time.Time
	naf    *time.Time
	active bool
	simple bool // every line is understood by the independent matcher and the zone has a fixed offset
}

func refParse(jc *execution.JobConfig, g cronConfigGen) (*refSched, error) {
	s := &refSched{}
	sp := jc.Spec.Schedule
	if sp == nil || sp.Cron == nil || sp.Disabled {
		return s, nil
	}
	format := cronexpr.CronFormatStandard
	if g.Format == "quartz" {
		format = cronexpr.CronFormatQuartz
	}
	lines := append([]string{}, sp.Cron.Expressions...)
	if sp.Cron.Expression != "" {
		lines = append(lines, sp.Cron.Expression)
	}
	for _, l := range lines {
		var opts []cronexpr.ParseOption
		if g.hashNames() {
			opts = append(opts, cronexpr.WithHash(jc.Namespace+"/"+jc.Name))
			if g.HashSeconds != nil && *g.HashSeconds {
				opts = append(opts, cronexpr.WithHashEmptySeconds())
			}
			if g.HashFields == nil || *g.HashFields {
				opts = append(opts, cronexpr.WithHashFields())
			}
		}
		e, err := cronexpr.ParseForFormat(format, l, opts...)
		if err != nil {
			return nil, err
		}
		s.exprs = append(s.exprs, e)
	}
	s.lines = lines
	loc, ok := refLocation(sp.Cron.Timezone, g.DefaultTZ)
	if !ok {
		return nil, fmt.Errorf("timezone %q", sp.Cron.Timezone)
	}
	s.loc = loc
	if c := sp.Constraints; c != nil {
		if c.NotBefore != nil && !c.NotBefore.IsZero() {
			t := c.NotBefore.Time
			s.nbf = &t
		}
		if c.NotAfter != nil && !c.NotAfter.IsZero() {
			t := c.NotAfter.Time
			s.naf = &t
		}
	}
	s.active = len(s.exprs) > 0
	_, off1 := time.Date(2040, 1, 1, 0, 0, 0, 0, loc).Zone()
	_, off2 := time.Date(2040, 7, 1, 0, 0, 0, 0, loc).Zone()
	s.simple = format == cronexpr.CronFormatStandard && off1 == off2 && !(g.hashNames() && g.HashSeconds != nil && *g.HashSeconds)
	for _, l := range lines {
		if _, ok := parseSimple(l); !ok {
			s.simple = false
		}
	}
	return s, nil
}

// next is the earliest time after c matching any expression in the schedule's zone, inside the window.
func (s *refSched) next(c time.Time) time.Time {
	if !s.active {
		return time.Time{}
	}
	if s.nbf != nil && c.Before(*s.nbf) {
		c = s.nbf.Add(-time.Nanosecond)
	}
	var best time.Time
	for _, e := range s.exprs {
		n := e.Next(c.In(s.loc))
		if !n.IsZero() && (best.IsZero() || n.Before(best)) {
			best = n
		}
	}
	if !best.IsZero() && s.naf != nil && best.After(*s.naf) {
		return time.Time{}
	}
	return best
}

// expectTick advances the cursor over every due time up to now, honouring the missed-schedule cap.
func (s *refSched) expectTick(cursor *time.Time, now time.Time, maxMissed int) (exp []time.Time, capped bool) {
	for {
		nx := s.next(*cursor)
		if nx.IsZero() || nx.After(now) {
			return exp, capped
		}
		if len(exp) >= maxMissed {
			*cursor = now
			return exp, true
		}
		exp = append(exp, nx)
		*cursor = nx
	}
}

// ---------------------------------------------------------------------------
// independent matcher for plain numeric expressions (standard format)

type simpleExpr struct {
	sec, min, hour, dom, mon, dow, year map[int]bool
	domStar, dowStar                    bool
}

// parseSimpleField understands '*', numbers, ranges and steps. Like cronexpr (the trusted
// definition of "matches"), only a bare '*' leaves a day field unrestricted; day-of-week
// ranges touching 0/7 are left to cronexpr (its Sunday normalisation is a library quirk).
func parseSimpleField(f string, lo, hi int) (map[int]bool, bool, bool) {
	set := map[int]bool{}
	star := f == "*"
	dow := lo == 0 && hi == 7
	for _, part := range strings.Split(f, ",") {
		step := 1
		rng := part
		if i := strings.Index(part, "/"); i >= 0 {
			n, err := strconv.Atoi(part[i+1:])
			if err != nil || n <= 0 {
				return nil, false, false
			}
			step = n
			rng = part[:i]
		}
		a, b := lo, hi
		switch {
		case rng == "*":
			if dow {
				b = 6
			}
		case strings.Contains(rng, "-"):
			p := strings.SplitN(rng, "-", 2)
			x, e1 := strconv.Atoi(p[0])
			y, e2 := strconv.Atoi(p[1])
			if e1 != nil || e2 != nil {
				return nil, false, false
			}
			a, b = x, y
			if dow && (x == 0 || y == 0 || x == 7 || y == 7 || x >= y) {
				return nil, false, false
			}
		default:
			x, err := strconv.Atoi(rng)
			if err != nil {
				return nil, false, false
			}
			a = x
			if !strings.Contains(part, "/") {
				b = x
			} else if dow {
				return nil, false, false
			}
		}
		if a < lo || b > hi || a > b {
			return nil, false, false
		}
		for v := a; v <= b; v += step {
			set[v] = true
		}
	}
	return set, star, true
}

func parseSimple(line string) (*simpleExpr, bool) {
	f := strings.Fields(line)
	if len(f) < 5 || len(f) > 7 || strings.HasPrefix(line, "@") {
		return nil, false
	}
	e := &simpleExpr{sec: map[int]bool{0: true}}
	i := 0
	var ok bool
	if len(f) == 7 {
		if e.sec, _, ok = parseSimpleField(f[0], 0, 59); !ok {
			return nil, false
		}
		i = 1
	}
	if e.min, _, ok = parseSimpleField(f[i], 0, 59); !ok {
		return nil, false
	}
	if e.hour, _, ok = parseSimpleField(f[i+1], 0, 23); !ok {
		return nil, false
	}
	if e.dom, e.domStar, ok = parseSimpleField(f[i+2], 1, 31); !ok {
		return nil, false
	}
	if e.mon, _, ok = parseSimpleField(f[i+3], 1, 12); !ok {
		return nil, false
	}
	if e.dow, e.dowStar, ok = parseSimpleField(f[i+4], 0, 7); !ok {
		return nil, false
	}
	if e.dow[7] {
		e.dow[0] = true
	}
	if len(f) >= 6 {
		if f[i+5] != "*" {
			return nil, false
		}
	}
	return e, true
}

func (e *simpleExpr) matches(t time.Time) bool {
	if t.Nanosecond() != 0 || !e.sec[t.Second()] || !e.min[t.Minute()] || !e.hour[t.Hour()] || !e.mon[int(t.Month())] {
		return false
	}
	domOK, dowOK := e.dom[t.Day()], e.dow[int(t.Weekday())]
	switch {
	case e.domStar && e.dowStar:
		return true
	case e.domStar:
		return dowOK
	case e.dowStar:
		return domOK
	default:
		return domOK || dowOK
	}
}

func (s *refSched) simpleMatch(t time.Time) (bool, bool) {
	if !s.simple {
		return false, false
	}
	lt := t.In(s.loc)
	for _, l := range s.lines {
		if e, ok := parseSimple(l); ok && e.matches(lt) {
			return true, true
		}
	}
	return false, true
}

// ---------------------------------------------------------------------------
// JobConfig construction

func cronJobConfig(ns, name string, lines []string, tz string) *execution.JobConfig {
	jc := &execution.JobConfig{ObjectMeta: metav1.ObjectMeta{Name: name, Namespace: ns}}
	jc.Spec.Concurrency.Policy = execution.ConcurrencyPolicyAllow
	jc.Spec.Template.Spec = execution.JobTemplate{TaskTemplate: sim.PodTemplate(), MaxAttempts: pointer.Int64(1)}
	cs := &execution.CronSchedule{Timezone: tz}
	if len(lines) == 1 {
		cs.Expression = lines[0]
	} else {
		cs.Expressions = lines
	}
	jc.Spec.Schedule = &execution.ScheduleSpec{Cron: cs}
	return jc
}

func unixList(ts []time.Time) []int64 {
	var o []int64
	for _, t := range ts {
		o = append(o, t.Unix())
	}
	return o
}

func reqTimes(reqs []cronReq, key string) []time.Time {
	var o []time.Time
	for _, q := range reqs {
		if q.Key == key {
			o = append(o, q.TS)
		}
	}
	return o
}

func sortedKeys(m map[string]*refJC) []string {
	var k []string
	for x := range m {
		k = append(k, x)
	}
	sort.Strings(k)
	return k
}

// refJC is the reference's state for one scheduled JobConfig.
type refJC struct {
	sched  *refSched
	cursor time.Time
	uid    string
	lastTS time.Time
	desc   string
}
