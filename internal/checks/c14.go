package checks

import (
	"encoding/base32"
	"encoding/json"
	"fmt"
	"math/rand"
	"reflect"
	"sort"
	"strconv"
	"strings"
	"time"

	"github.com/mitchellh/hashstructure/v2"
	corev1 "k8s.io/api/core/v1"
	metav1 "k8s.io/apimachinery/pkg/apis/meta/v1"
	"k8s.io/apimachinery/pkg/util/validation/field"
	"k8s.io/utils/pointer"

	execution "github.com/furiko-io/furiko/apis/execution/v1alpha1"
	"github.com/furiko-io/furiko/pkg/execution/taskexecutor/podtaskexecutor"
	"github.com/furiko-io/furiko/pkg/execution/tasks"
	jobutil "github.com/furiko-io/furiko/pkg/execution/util/job"
	"github.com/furiko-io/furiko/pkg/execution/util/parallel"
	"github.com/furiko-io/furiko/pkg/execution/validation"
	"github.com/furiko-io/furiko/pkg/runtime/controllercontext/mock"

	"furikoverif/internal/core"
)

// C14: every parallel index is distinct, complete and gets its own task and
// variables; admission rejects specs for which this cannot hold.
//
// Case space: case i < nCounts is withCount = i+1 (exhaustive sub-range);
// the remaining cases are generated withKeys / withMatrix specs.

func c14Counts(tier string) int {
	if tier == "thorough" {
		return 5000
	}
	return 600
}

func c14Specs(tier string) int {
	if tier == "thorough" {
		return 200000
	}
	return 3000
}

func init() {
	core.Register(&core.Check{
		ID:    "C14",
		Level: "exploration",
		Rule: "cases = withCount 1..N exhaustively, then seeded withKeys lists (duplicates, prefixes, permutations, case variants) and withMatrix specs (repeated values, values shared across keys); " +
			"a case is non-trivial when the spec expands to >= 2 indexes; distinct = distinct (type, canonical spec) among those",
		Assumptions: []string{
			"hashstructure.Hash (FormatV2) is trusted as the definition of the raw index hash",
			"ValidateParallelismSpec is the admission decision for the parallelism spec (the webhook calls it through ValidateJobTemplate)",
		},
		Cases: func(tier string) int { return c14Counts(tier) + c14Specs(tier) },
		Run:   c14Run,
	})
}

// refHash is the documented hash: first 6 characters of the lower-cased base32
// encoding of the decimal hashstructure hash.
func refHash(idx execution.ParallelIndex) string {
	h, err := hashstructure.Hash(idx, hashstructure.FormatV2, nil)
	if err != nil {
		return "ERR:" + err.Error()
	}
	s := base32.StdEncoding.EncodeToString([]byte(strconv.FormatUint(h, 10)))
	return strings.ToLower(s[:6])
}

func idxString(i execution.ParallelIndex) string {
	switch {
	case i.IndexNumber != nil:
		return fmt.Sprintf("num=%d", *i.IndexNumber)
	case i.IndexKey != "":
		return fmt.Sprintf("key=%q", i.IndexKey)
	default:
		keys := make([]string, 0, len(i.MatrixValues))
		for k := range i.MatrixValues {
			keys = append(keys, k)
		}
		sort.Strings(keys)
		var sb strings.Builder
		sb.WriteString("matrix{")
		for _, k := range keys {
			fmt.Fprintf(&sb, "%s=%q,", k, i.MatrixValues[k])
		}
		sb.WriteString("}")
		return sb.String()
	}
}

// expectedIndexes is the independent expansion.
func expectedIndexes(spec *execution.ParallelismSpec) []execution.ParallelIndex {
	switch {
	case spec.WithCount != nil:
		var out []execution.ParallelIndex
		for i := int64(0); i < *spec.WithCount; i++ {
			out = append(out, execution.ParallelIndex{IndexNumber: pointer.Int64(i)})
		}
		return out
	case len(spec.WithKeys) > 0:
		var out []execution.ParallelIndex
		for _, k := range spec.WithKeys {
			out = append(out, execution.ParallelIndex{IndexKey: k})
		}
		return out
	case len(spec.WithMatrix) > 0:
		keys := make([]string, 0, len(spec.WithMatrix))
		for k := range spec.WithMatrix {
			keys = append(keys, k)
		}
		sort.Strings(keys)
		out := []map[string]string{{}}
		for _, k := range keys {
			var next []map[string]string
			for _, base := range out {
				for _, v := range spec.WithMatrix[k] {
					m := map[string]string{}
					for a, b := range base {
						m[a] = b
					}
					m[k] = v
					next = append(next, m)
				}
			}
			out = next
		}
		var res []execution.ParallelIndex
		for _, m := range out {
			res = append(res, execution.ParallelIndex{MatrixValues: m})
		}
		return res
	}
	return []execution.ParallelIndex{{IndexNumber: pointer.Int64(0)}}
}

var c14Words = []string{"a", "b", "ab", "ba", "A", "Ab", "abc", "acb", "key", "key1", "key10", "key01", "1", "01", "10", "x-y", "x_y", "xy", "north", "south", "prod", "Prod", "prod ", " prod", "é", "日本", "0", "00", "a.b", "a/b"}

func c14GenSpec(r *rand.Rand) (*execution.ParallelismSpec, string) {
	spec := &execution.ParallelismSpec{CompletionStrategy: execution.AllSuccessful}
	if r.Intn(4) == 0 {
		spec.CompletionStrategy = execution.AnySuccessful
	}
	switch r.Intn(10) {
	case 0, 1, 2, 3: // keys
		n := 1 + r.Intn(8)
		if r.Intn(6) == 0 {
			n = 1 + r.Intn(300)
		}
		seen := map[string]bool{}
		class := "keys"
		for i := 0; i < n; i++ {
			var k string
			switch r.Intn(6) {
			case 0:
				k = c14Words[r.Intn(len(c14Words))]
			case 1:
				k = fmt.Sprintf("k%d", r.Intn(n+3))
			case 2:
				if len(spec.WithKeys) > 0 { // duplicate or variant of an existing key
					base := spec.WithKeys[r.Intn(len(spec.WithKeys))]
					switch r.Intn(4) {
					case 0:
						k = base
					case 1:
						k = base + "x"
					case 2:
						k = strings.ToUpper(base)
					default:
						k = reverse(base)
					}
				} else {
					k = "dup"
				}
			default:
				k = fmt.Sprintf("key-%d-%d", i, r.Intn(1000))
			}
			if r.Intn(8) == 0 {
				// characters that mean something to template and regexp engines must arrive verbatim
				k += []string{"$usd", "$1", "$$", "\\1", "$0x", "%s", "$"}[r.Intn(7)]
			}
			if seen[k] {
				class = "keys-dup"
			}
			seen[k] = true
			spec.WithKeys = append(spec.WithKeys, k)
		}
		return spec, class
	case 4, 5, 6, 7, 8: // matrix
		nk := 1 + r.Intn(4)
		spec.WithMatrix = map[string][]string{}
		class := "matrix"
		pool := []string{"x", "y", "z", "1", "2", "10", "a", "b", "aa", "prod", "dev"}
		for len(spec.WithMatrix) < nk {
			key := []string{"a", "b", "c", "os", "arch", "k_1", "k-2", "z9"}[r.Intn(8)]
			if _, ok := spec.WithMatrix[key]; ok {
				continue
			}
			nv := 1 + r.Intn(5)
			var vals []string
			seen := map[string]bool{}
			for j := 0; j < nv; j++ {
				v := pool[r.Intn(len(pool))]
				if r.Intn(3) > 0 {
					v = fmt.Sprintf("%s%d", v, j)
				}
				if r.Intn(8) == 0 {
					v += []string{"$usd", "$1", "$$", "\\1", "$0x", "%s", "$root"}[r.Intn(7)]
				}
				if seen[v] {
					class = "matrix-dup"
				}
				seen[v] = true
				vals = append(vals, v)
			}
			spec.WithMatrix[key] = vals
		}
		return spec, class
	default: // two types at once, or none
		switch r.Intn(3) {
		case 0:
			spec.WithCount = pointer.Int64(int64(1 + r.Intn(5)))
			spec.WithKeys = []string{"a", "b"}
			return spec, "two-types"
		case 1:
			spec.WithKeys = []string{"a", "b"}
			spec.WithMatrix = map[string][]string{"a": {"x", "y"}}
			return spec, "two-types"
		default:
			return spec, "no-type"
		}
	}
}

func reverse(s string) string {
	r := []rune(s)
	for i, j := 0, len(r)-1; i < j; i, j = i+1, j-1 {
		r[i], r[j] = r[j], r[i]
	}
	return string(r)
}

func c14Run(env *core.Env, res *core.Result) {
	silenceLogs()
	ctrl := mock.NewContext()
	v := validation.NewValidator(ctrl)
	nCounts := c14Counts(env.Tier)
	for i := env.From; i < env.To; i++ {
		res.Cases++
		var spec *execution.ParallelismSpec
		var class string
		if i < nCounts {
			spec = &execution.ParallelismSpec{WithCount: pointer.Int64(int64(i + 1)), CompletionStrategy: execution.AllSuccessful}
			class = "count"
		} else {
			spec, class = c14GenSpec(env.Rand(i))
		}
		c14One(env, res, v, i, spec, class)
	}
}

func specJSON(spec *execution.ParallelismSpec) string {
	b, _ := json.Marshal(spec)
	return string(b)
}

func c14One(env *core.Env, res *core.Result, v *validation.Validator, caseIdx int, spec *execution.ParallelismSpec, class string) {
	viol := func(sig, f string, a ...interface{}) {
		res.Violate(core.Violation{Prop: "C14", Sig: sig, Msg: fmt.Sprintf(f, a...), Case: caseIdx,
			Detail: map[string]interface{}{"spec": json.RawMessage(specJSON(spec))}})
	}
	errs := v.ValidateParallelismSpec(spec, field.NewPath("spec", "template", "parallelism"))
	rejected := len(errs) > 0
	res.Count("class_"+class, 1)
	if rejected {
		res.Count("rejected", 1)
	}

	// which types are set
	types := 0
	if spec.WithCount != nil {
		types++
	}
	if len(spec.WithKeys) > 0 {
		types++
	}
	if len(spec.WithMatrix) > 0 {
		types++
	}
	res.Evaluations++
	if types != 1 {
		// the requested set is not well defined: admission must reject
		if !rejected {
			viol("accepted-ambiguous types="+strconv.Itoa(types), "spec with %d parallelism types accepted by validation", types)
		}
		return
	}

	// 1. expansion equals the requested set, deterministically.
	got := parallel.GenerateIndexes(spec)
	want := expectedIndexes(spec)
	if !reflect.DeepEqual(got, want) {
		viol("expansion-mismatch "+class, "GenerateIndexes gave %d indexes, expected %d; first diff %s", len(got), len(want), firstDiff(got, want))
		return
	}
	for rep := 0; rep < 2; rep++ {
		if again := parallel.GenerateIndexes(spec); !reflect.DeepEqual(again, got) {
			viol("expansion-nondeterministic "+class, "GenerateIndexes differs between calls")
			return
		}
	}
	if len(got) >= 2 {
		res.MarkDistinct(class + specJSON(spec))
		res.Sample(map[string]interface{}{"class": class, "spec": json.RawMessage(specJSON(spec)), "indexes": len(got), "rejected": rejected}, 6)
	}
	if rejected {
		return // admission refuses: nothing further is promised
	}

	// 2. identities: indexes, hashes, names, slots pairwise distinct.
	byIdent := map[string]int{}
	byHash := map[string]int{}
	// Job names of every admissible length (admission accepts up to 60 characters): identity must not depend on the name being short
	jobName := "job"
	if n := caseIdx % 7; n > 0 {
		jobName = strings.Repeat("a-long-job-name-", 4)[:[]int{10, 40, 54, 55, 57, 60}[n-1]]
	}
	// task names must be distinct across retries of one index too
	byName := map[string]int{}
	refAgree := true
	for i, idx := range got {
		id := idxString(idx)
		if j, ok := byIdent[id]; ok {
			viol("duplicate-index-accepted "+strings.TrimSuffix(class, "-dup"), "indexes %d and %d are the same index %s but the spec was accepted", j, i, id)
			return
		}
		byIdent[id] = i
	}
	for i, idx := range got {
		h, err := parallel.HashIndex(idx)
		if err != nil {
			viol("hash-error", "HashIndex(%s): %v", idxString(idx), err)
			return
		}
		if h != refHash(idx) {
			refAgree = false
		}
		for rep := 0; rep < 2; rep++ {
			if h2, _ := parallel.HashIndex(idx); h2 != h {
				viol("hash-nondeterministic", "HashIndex(%s) gave %s then %s", idxString(idx), h, h2)
				return
			}
		}
		name, err := jobutil.GenerateTaskName(jobName, tasks.TaskIndex{Retry: 0, Parallel: idx})
		if err != nil {
			viol("name-error", "GenerateTaskName(%s): %v", idxString(idx), err)
			return
		}
		res.Evaluations++
		if j, ok := byHash[h]; ok {
			sig := fmt.Sprintf("hash6-collision refhash=%s", map[bool]string{true: "agree", false: "differ"}[refAgree && h == refHash(got[j])])
			if class == "count" {
				// the first colliding pair is a fixed function of the hash: pin it
				sig += fmt.Sprintf(" count-first-pair=%d,%d", j, i)
			}
			viol(sig, "distinct indexes %s and %s share hash %q (task names collide: %s) and the spec (%d indexes) was accepted by validation",
				idxString(got[j]), idxString(idx), h, name, len(got))
			res.Count("collision_specs", 1)
			return
		}
		byHash[h] = i
		if j, ok := byName[name]; ok {
			viol("name-collision", "indexes %d and %d share task name %s", j, i, name)
			return
		}
		byName[name] = i
		if n1, err := jobutil.GenerateTaskName(jobName, tasks.TaskIndex{Retry: 1, Parallel: idx}); err == nil {
			if j, ok := byName[n1]; ok {
				viol("name-collision", "retry 1 of index %d shares task name %s with index/attempt %d", i, n1, j)
				return
			}
			byName[n1] = -1 - i
		}
	}

	// 3. status slots: one per index, own hash, counts only own tasks.
	job := &execution.Job{ObjectMeta: metav1.ObjectMeta{Name: "job", Namespace: "ns", UID: "job-uid"},
		Spec: execution.JobSpec{Template: &execution.JobTemplate{Parallelism: spec, MaxAttempts: pointer.Int64(2),
			TaskTemplate: execution.TaskTemplate{Pod: &execution.PodTemplateSpec{Spec: corev1.PodSpec{
				InitContainers: []corev1.Container{{
					Name: "init", Image: "img",
					Args: []string{"n=${task.index_num};k=${task.index_key};m=" + matrixTemplate(spec)},
					Env:  []corev1.EnvVar{{Name: "IDX", Value: "${task.index_key}|${task.retry_index}"}},
				}},
				Containers: []corev1.Container{{
					Name: "c", Image: "img",
					Args: []string{"n=${task.index_num};k=${task.index_key};m=" + matrixTemplate(spec)},
				}}}}}}}}
	templateBefore := normJSON(job.Spec.Template)
	r := rand.New(rand.NewSource(env.CaseSeed(caseIdx) ^ 0x14))
	pick := r.Intn(len(got))
	ts := metav1.NewTime(time.Unix(2000000000, 0))
	idxCopy := got[pick]
	refs := []execution.TaskRef{{Name: "job-x-0", CreationTimestamp: ts, RunningTimestamp: &ts, ParallelIndex: &idxCopy}}
	st, err := parallel.GetParallelStatus(job, refs)
	if err != nil {
		viol("status-error", "GetParallelStatus: %v", err)
		return
	}
	if len(st.Indexes) != len(got) {
		viol("status-slots", "status has %d slots for %d indexes", len(st.Indexes), len(got))
		return
	}
	slotHash := map[string]bool{}
	for i, s := range st.Indexes {
		if slotHash[s.Hash] {
			viol("status-slot-shared", "status slot hash %s appears twice", s.Hash)
			return
		}
		slotHash[s.Hash] = true
		if !reflect.DeepEqual(s.Index, got[i]) {
			viol("status-slot-order", "slot %d is for %s, expected %s", i, idxString(s.Index), idxString(got[i]))
			return
		}
		wantTasks := int64(0)
		if i == pick {
			wantTasks = 1
		}
		if s.CreatedTasks != wantTasks {
			viol("status-slot-count", "slot %d (%s) counts %d tasks, expected %d (task belongs to index %d)", i, idxString(s.Index), s.CreatedTasks, wantTasks, pick)
			return
		}
	}
	res.Evaluations++

	// 4. the task created for an index carries that index's values.
	checkIdx := []int{pick, 0, len(got) - 1}
	for _, ci := range checkIdx {
		idx := got[ci]
		retry := int64(r.Intn(3))
		pod, err := podtaskexecutor.NewPod(job, &corev1.PodTemplateSpec{Spec: job.Spec.Template.TaskTemplate.Pod.Spec}, tasks.TaskIndex{Retry: retry, Parallel: idx})
		if err != nil {
			viol("newpod-error", "NewPod(%s): %v", idxString(idx), err)
			return
		}
		wantArg := "n="
		if idx.IndexNumber != nil {
			wantArg += strconv.FormatInt(*idx.IndexNumber, 10)
		}
		wantArg += ";k=" + idx.IndexKey + ";m="
		keys := make([]string, 0, len(spec.WithMatrix))
		for k := range spec.WithMatrix {
			keys = append(keys, k)
		}
		sort.Strings(keys)
		for _, k := range keys {
			wantArg += k + ":" + idx.MatrixValues[k] + ","
		}
		if gotArg := pod.Spec.Containers[0].Args[0]; gotArg != wantArg {
			viol("pod-variables", "Pod for %s has args %q, expected %q", idxString(idx), gotArg, wantArg)
			return
		}
		// every container of the Pod, init containers included, and whatever was built from the same Job before
		if len(pod.Spec.InitContainers) != 1 || pod.Spec.InitContainers[0].Args[0] != wantArg {
			viol("pod-variables-init-container", "Pod for %s (retry %d): init container has args %q, expected %q", idxString(idx), retry, pod.Spec.InitContainers[0].Args, wantArg)
			return
		}
		if wantEnv := idx.IndexKey + "|" + strconv.FormatInt(retry, 10); pod.Spec.InitContainers[0].Env[0].Value != wantEnv {
			viol("pod-variables-init-container", "Pod for %s (retry %d): init container env is %q, expected %q", idxString(idx), retry, pod.Spec.InitContainers[0].Env[0].Value, wantEnv)
			return
		}
		if now := normJSON(job.Spec.Template); now != templateBefore {
			viol("job-template-mutated", "building the Pod for %s changed the Job's own template: %s -> %s", idxString(idx), templateBefore, now)
			return
		}
		h, _ := parallel.HashIndex(idx)
		if pod.Labels[podtaskexecutor.LabelKeyTaskParallelIndexHash] != h {
			viol("pod-hash-label", "Pod for %s labelled with hash %q, expected %q", idxString(idx), pod.Labels[podtaskexecutor.LabelKeyTaskParallelIndexHash], h)
			return
		}
		if pod.Labels[podtaskexecutor.LabelKeyTaskRetryIndex] != strconv.FormatInt(retry, 10) {
			viol("pod-retry-label", "Pod retry label %q, expected %d", pod.Labels[podtaskexecutor.LabelKeyTaskRetryIndex], retry)
			return
		}
		var back execution.ParallelIndex
		if err := json.Unmarshal([]byte(pod.Annotations[podtaskexecutor.AnnotationKeyTaskParallelIndex]), &back); err != nil || !reflect.DeepEqual(back, idx) {
			viol("pod-index-annotation", "Pod annotation %q does not decode to %s", pod.Annotations[podtaskexecutor.AnnotationKeyTaskParallelIndex], idxString(idx))
			return
		}
		wantName := fmt.Sprintf("job-%s-%d", h, retry)
		if pod.Name != wantName {
			viol("pod-name", "Pod name %q, expected %q", pod.Name, wantName)
			return
		}
		// the task abstraction must read the same index back
		if pidx, ok := podtaskexecutor.NewPodTask(pod, nil).GetParallelIndex(); !ok || !reflect.DeepEqual(*pidx, idx) {
			viol("pod-index-readback", "PodTask.GetParallelIndex does not return %s", idxString(idx))
			return
		}
		res.Evaluations++
	}
	res.Count("accepted_fully_checked", 1)
	res.Count("indexes_checked", len(got))
}

func matrixTemplate(spec *execution.ParallelismSpec) string {
	keys := make([]string, 0, len(spec.WithMatrix))
	for k := range spec.WithMatrix {
		keys = append(keys, k)
	}
	sort.Strings(keys)
	var sb strings.Builder
	for _, k := range keys {
		fmt.Fprintf(&sb, "%s:${task.index_matrix.%s},", k, k)
	}
	return sb.String()
}

func firstDiff(a, b []execution.ParallelIndex) string {
	for i := 0; i < len(a) && i < len(b); i++ {
		if !reflect.DeepEqual(a[i], b[i]) {
			return fmt.Sprintf("at %d: got %s want %s", i, idxString(a[i]), idxString(b[i]))
		}
	}
	return fmt.Sprintf("length %d vs %d", len(a), len(b))
}
