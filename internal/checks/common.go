// Package checks holds one file per property: workload generators, the
// deciding oracle and the registration of the check.
package checks

import (
	"sort"
	"sync"

	"furikoverif/internal/sim"
)

var silenceOnce sync.Once

// silenceLogs turns klog off: the controllers log every step, which slows runs by two orders of magnitude.
func silenceLogs() {
	silenceOnce.Do(sim.SilenceLogs)
}

func sortStrings(l []string) { sort.Strings(l) }
