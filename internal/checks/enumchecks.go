package checks

import (
	"fmt"
	"math/rand"
	"sort"
	"strconv"
	"strings"
	"time"

	"k8s.io/utils/pointer"

	configv1alpha1 "github.com/furiko-io/furiko/apis/config/v1alpha1"
	execution "github.com/furiko-io/furiko/apis/execution/v1alpha1"

	"github.com/furiko-io/furiko/pkg/execution/controllers/croncontroller"
	"github.com/furiko-io/furiko/pkg/execution/util/jobconfig"

	"furikoverif/internal/core"
	"furikoverif/internal/sim"
)

// enumSpec is a fault-enumeration check: for each scripted workload, every gated
// controller API call index x fault kind is injected once, plus random fault patterns.
type enumSpec struct {
	ID       string
	Rule     string
	Assume   []string
	Scripts  func(tier string) int
	Random   func(tier string) int
	MaxCalls int
	Kinds    []sim.FaultKind
	Modes    []string
	EvalKeys []string
	// Base builds the fault-free case of a script (deterministic in script and mode).
	Base func(env *core.Env, script int, mode string) simCase
	// RandomCase builds a random-fault case.
	RandomCase func(env *core.Env, i int, r *rand.Rand) simCase
	// After runs extra end-of-run oracles (twin comparison etc.); base is the fault-free twin (nil for the twin itself).
	After func(env *core.Env, i int, w, base *sim.World, res *core.Result)
	// NonTrivial decides whether the injected point is interesting.
	NonTrivial func(w *sim.World, hit *sim.Call) bool
	// AdoptSafety makes violations of the other properties' safety monitors count as
	// violations of this property (C20: "none of the safety guarantees is violated along the way").
	AdoptSafety bool
	Phases      []core.Phase
	RacePkgs    []string
}

func (e *enumSpec) enumTotal(tier string) int {
	return e.Scripts(tier) * len(e.Modes) * e.MaxCalls * len(e.Kinds)
}

type baseInfo struct {
	calls int
	world *sim.World
}

func runEnum(e *enumSpec, env *core.Env, res *core.Result) {
	silenceLogs()
	bases := map[string]*baseInfo{}
	total := e.enumTotal(env.Tier)
	spec := &simSpec{ID: e.ID, EvalKeys: e.EvalKeys, AdoptSafety: e.AdoptSafety}
	for i := env.From; i < env.To; i++ {
		res.Cases++
		if i >= total {
			// random fault patterns
			r := env.Rand(i)
			sc := e.RandomCase(env, i, r)
			w := sim.NewWorld(sc.Opt)
			wl := sim.Gen(rand.New(rand.NewSource(sc.Opt.Seed)), sc.Prof)
			if sc.Prepare != nil {
				sc.Prepare(w, wl)
			}
			w.Script(wl.Ops)
			w.Run()
			w.Mon.Fixpoint()
			spec.NonTrivial = func(w *sim.World) bool {
				f, _ := w.Opt.Faults.(*sim.RandomFaults)
				return f != nil && f.Hits > 0
			}
			collect(spec, env, i, sc, w, wl, res)
			res.Count("random_fault_cases", 1)
			if f, _ := sc.Opt.Faults.(*sim.RandomFaults); f != nil {
				res.Count("random_faults_injected", f.Hits)
			}
			if e.After != nil {
				// fault-free twin with the same seed
				sc2 := e.RandomCase(env, i, env.Rand(i))
				sc2.Opt.Faults = nil
				b := sim.NewWorld(sc2.Opt)
				wl2 := sim.Gen(rand.New(rand.NewSource(sc2.Opt.Seed)), sc2.Prof)
				if sc2.Prepare != nil {
					sc2.Prepare(b, wl2)
				}
				b.Script(wl2.Ops)
				b.Run()
				e.After(env, i, w, b, res)
			}
			continue
		}
		// decode (script, mode, k, kind)
		x := i
		kind := e.Kinds[x%len(e.Kinds)]
		x /= len(e.Kinds)
		k := x % e.MaxCalls
		x /= e.MaxCalls
		mode := e.Modes[x%len(e.Modes)]
		script := x / len(e.Modes)
		bk := fmt.Sprintf("%d/%s", script, mode)
		b := bases[bk]
		if b == nil {
			sc := e.Base(env, script, mode)
			w := sim.NewWorld(sc.Opt)
			wl := sim.Gen(rand.New(rand.NewSource(sc.Opt.Seed)), sc.Prof)
			if sc.Prepare != nil {
				sc.Prepare(w, wl)
			}
			w.Script(wl.Ops)
			w.Run()
			w.Mon.Fixpoint()
			b = &baseInfo{calls: w.CtrlCalls(), world: w}
			bases[bk] = b
			if k == 0 && kind == e.Kinds[0] {
				// the fault-free run itself is judged once per (script, mode)
				spec.NonTrivial = func(*sim.World) bool { return false }
				collect(spec, env, i, sc, w, wl, res)
				res.Count("fault_free_runs", 1)
				res.Count("fault_free_calls", b.calls)
			}
		}
		if k >= b.calls {
			res.Count("points_beyond_script", 1)
			continue
		}
		sc := e.Base(env, script, mode)
		at := &sim.AtIndex{K: k, Kind: kind}
		sc.Opt.Faults = at
		sc.Note = fmt.Sprintf("script %d mode %s: %v at controller call #%d", script, mode, kind, k)
		w := sim.NewWorld(sc.Opt)
		wl := sim.Gen(rand.New(rand.NewSource(sc.Opt.Seed)), sc.Prof)
		if sc.Prepare != nil {
			sc.Prepare(w, wl)
		}
		w.Script(wl.Ops)
		w.Run()
		w.Mon.Fixpoint()
		res.Count("fault_points_injected", 1)
		res.Count("fault_"+kind.String(), 1)
		hit := at.Hit
		if hit == nil {
			res.Count("fault_point_not_reached", 1)
		} else {
			res.Count("hit_"+hit.Verb+"_"+string(hit.Kind), 1)
		}
		spec.NonTrivial = func(w *sim.World) bool { return hit != nil && (e.NonTrivial == nil || e.NonTrivial(w, hit)) }
		// distinctness: the abstract trace already encodes where the fault bit
		collect(spec, env, i, sc, w, wl, res)
		if e.After != nil {
			e.After(env, i, w, b.world, res)
		}
	}
}

func registerEnum(e *enumSpec) {
	simPool = append(simPool, func(env *core.Env, i int, r *rand.Rand) simCase {
		sc := e.RandomCase(env, i, r)
		// the generator of an enumeration check derives its workload from the options' seed
		sc.Reseed = true
		return sc
	})
	simPoolNames = append(simPoolNames, e.ID)
	core.Register(&core.Check{
		ID:    e.ID,
		Level: "fault_enumeration",
		Rule:  e.Rule,
		Assumptions: append([]string{
			"simulated API server/kubelet (DESIGN.md 3.1); fault points are the controllers' mutating API calls (the only places between their critical sections) plus hash-decided faults on the concurrent Pod deletes",
			"a crash abandons the whole incarnation at the call (before or after it is applied) and a new incarnation boots from a fresh list",
		}, e.Assume...),
		Cases:    func(tier string) int { return e.enumTotal(tier) + e.Random(tier) },
		Run:      func(env *core.Env, res *core.Result) { runEnum(e, env, res) },
		Phases:   e.Phases,
		RacePkgs: e.RacePkgs,
	})
}

func tierN(q, t int) func(string) int {
	return func(tier string) int {
		if tier == "thorough" {
			return t
		}
		return q
	}
}

func cronJC(name, expr string, pol execution.ConcurrencyPolicy) *execution.JobConfig {
	jc := &execution.JobConfig{}
	jc.Name = name
	jc.Namespace = "default"
	jc.Spec.Concurrency.Policy = pol
	jc.Spec.Template.Spec = execution.JobTemplate{TaskTemplate: sim.PodTemplate(), MaxAttempts: pointer.Int64(1)}
	jc.Spec.Schedule = &execution.ScheduleSpec{Cron: &execution.CronSchedule{Expression: expr}}
	return jc
}

func init() {
	// ------------------------------------------------------------------ C09
	registerEnum(&enumSpec{
		ID: "C09",
		Rule: "scripts = seeded small lifecycles (single task / parallel 2-3 / retries / kill / delete / foreign object on a task name); for each script and schedule mode every gated controller API call index x {500 before apply, timeout after apply, crash before, crash after} is injected once; plus random fault/crash patterns; " +
			"non-trivial = the injected point is a Pod create or the Job write that records/acts on tasks, or a foreign object was hit; distinct = distinct abstract trace",
		Scripts: tierN(3, 20), Random: tierN(200, 10000), MaxCalls: 60,
		Kinds:    []sim.FaultKind{sim.F500Before, sim.FTimeoutAfter, sim.FCrashBefore, sim.FCrashAfter},
		Modes:    []string{"seq", "lag"},
		EvalKeys: []string{"C09", "C09_fix", "C08"},
		Base: func(env *core.Env, script int, mode string) simCase {
			seed := env.Seed*7919 + int64(script)*104729 + 11
			r := rand.New(rand.NewSource(seed))
			o := sim.Options{Seed: seed, Mode: mode, MaxInFlight: 1 + r.Intn(2), Split: false, Horizon: 3 * time.Hour, StepBudget: 150000,
				Kubelet: sim.KubeletOptions{FailRate: 50, LateDie: 6, Flap: 8, Vanish: 10, ExitOnDelete: 5}, JobCfg: jobCfg(3600, 900, 60)}
			return simCase{Opt: o, Prof: sim.Profile{MinJobs: 1, MaxJobs: 2, Parallel: 60, MaxAttempts: 3, MaxRetryDelay: 6, KillPct: 25, DeletePct: 20, ForeignPct: 25 * (script % 2),
				PendingTimeout: []int64{-1, 12}, TTL: []int64{30, 120}, Spread: 10}}
		},
		RandomCase: func(env *core.Env, i int, r *rand.Rand) simCase {
			o := baseOptions(env, i, r)
			o.Kubelet = sim.KubeletOptions{FailRate: 50, LateDie: 6, Flap: 8, Vanish: 10, ExitOnDelete: 5}
			o.JobCfg = jobCfg(3600, 900, 60)
			o.Faults = &sim.RandomFaults{Pct: 8, Kinds: []sim.FaultKind{sim.F500Before, sim.F409Before, sim.FTimeoutAfter, sim.FCrashBefore, sim.FCrashAfter, sim.F422Before}, R: rand.New(rand.NewSource(o.Seed ^ 0x9)), Until: 250, Crashes: 2, ReadPct: 15}
			o.InvalidPodFaults = true
			prof := sim.Profile{MinJobs: 1, MaxJobs: 4, Parallel: 60, MaxAttempts: 3, MaxRetryDelay: 6, KillPct: 20, DeletePct: 15, ForeignPct: 20,
				PendingTimeout: []int64{-1, 12}, TTL: []int64{30, 120}}
			note := "random faults"
			if i%3 == 0 {
				// kills and deletions while the Pod cache is far behind the Job cache
				o.Mode, o.DeepLag, o.LagKinds = "lag", true, []sim.Kind{sim.KPod}
				prof.KillPct, prof.FutureKill, prof.DeletePct, prof.ForeignPct = 70, 30, 25, 0
				note = "random faults, kill-heavy, deep cache lag"
			}
			return simCase{Opt: o, Note: note, Prof: prof}
		},
		NonTrivial: func(w *sim.World, hit *sim.Call) bool {
			return (hit.Kind == sim.KPod && hit.Verb == "create") || hit.Kind == sim.KJob
		},
	})

	// ------------------------------------------------------------------ C20
	c20cfg := &configv1alpha1.CronExecutionConfig{MaxMissedSchedules: pointer.Int64(50)}
	c20prep := func(w *sim.World, wl *sim.Workload) {}
	_ = c20prep
	registerEnum(&enumSpec{
		ID: "C20",
		Rule: "all four controllers plus cron on confluent workloads (Allow/Enqueue JobConfigs with per-10..30 s cron schedules, ad-hoc Jobs with retries; no kills, no deadlines racing with progress); every gated controller API call index x {500 before, 409 before, timeout after apply} once, plus random patterns (bursts, alternating, all verbs) that stop after a bounded number of calls; judged: all safety monitors during the run, fixpoint reached, every due schedule time has its Job, nothing startable queued, results as implied, cleanup done, counter/status accurate, and the outcome (job results, task names and true task results) equals the fault-free twin run; " +
			"non-trivial = the fault hit a write; distinct = distinct abstract trace",
		Assume:  []string{"convergence is judged as bounded progress: a fixpoint within the step budget once faults stop", "twin equality only for confluent workloads (no Forbid, no kill/pending deadlines, seq mode for the enumeration)"},
		Scripts: tierN(2, 15), Random: tierN(200, 15000), MaxCalls: 150,
		Kinds:    []sim.FaultKind{sim.F500Before, sim.F409Before, sim.FTimeoutAfter},
		Modes:    []string{"seq"},
		EvalKeys: []string{"C20_twin", "C20_sched", "C20_requeue", "C05", "C08", "C10", "C13"},
		Base: func(env *core.Env, script int, mode string) simCase {
			seed := env.Seed*6007 + int64(script)*15485863 + 5
			return c20Case(seed, mode, script)
		},
		RandomCase: func(env *core.Env, i int, r *rand.Rand) simCase {
			sc := c20Case(env.CaseSeed(i), "seq", i)
			if i%2 == 1 {
				sc.Opt.Mode = "rand"
			}
			rf := &sim.RandomFaults{Pct: 5 + r.Intn(25), Kinds: []sim.FaultKind{sim.F500Before, sim.F409Before, sim.FTimeoutAfter, sim.F503Before, sim.F429Before}, R: rand.New(rand.NewSource(sc.Opt.Seed ^ 0x20)), Until: 60 + r.Intn(300), ReadPct: 10}
			sc.Opt.Faults = rf
			sc.Note = "random fault pattern"
			if i%4 == 3 {
				// a long outage of one kind of call: dozens of consecutive failures of the same work item
				vk := [][2]string{{"create", "jobs"}, {"update/status", "jobs"}, {"create", "pods"}, {"update/status", "jobconfigs"}, {"", ""}}[r.Intn(5)]
				from := time.Duration(5+r.Intn(25)) * time.Second
				sc.Opt.Faults = &sim.Outage{Verb: vk[0], Kind: sim.Kind(vk[1]), From: from, To: from + time.Duration(60+r.Intn(400))*time.Second, Inner: rf}
				sc.Note = fmt.Sprintf("outage of %q %q for minutes, plus random faults", vk[0], vk[1])
			}
			return sc
		},
		After: func(env *core.Env, i int, w, base *sim.World, res *core.Result) {
			c20After(i, w, base, res)
		},
		NonTrivial:  func(w *sim.World, hit *sim.Call) bool { return true },
		AdoptSafety: true,
		RacePkgs:    []string{"pkg/runtime/reconciler", "pkg/execution/controllers", "pkg/execution/stores", "pkg/utils/atomic"},
		Phases:      []core.Phase{{Name: "stress", Race: true, Run: stressPhase(nil, 8, "C20"), Count: tierN(1, 2)}},
	})
	_ = c20cfg

	// ------------------------------------------------------------------ C02
	registerEnum(&enumSpec{
		ID: "C02",
		Rule: "cron controller end to end (CronWorker ticks -> queue -> Reconciler -> ExecutionControl -> real webhooks) on 1-3 scheduled JobConfigs (names with dots/digits, two namespaces, Forbid/Allow/Enqueue); every gated controller API call index x {500 before, 409 before, timeout after apply, crash before, crash after} once, plus random fault/crash/lag patterns and injected duplicate / out-of-order schedule requests; judged at every Job create: no other existing Job with the same owner UID and schedule time, name = <jobconfig>-<unix>, annotation = requested time, owner reference and UID label = the JobConfig; " +
			"non-trivial = some schedule time was requested at least twice; distinct = distinct abstract trace",
		Assume:  []string{"re-creation after a user deleted the Job is not a duplicate (simultaneous existence is judged)"},
		Scripts: tierN(2, 12), Random: tierN(250, 20000), MaxCalls: 80,
		Kinds:    []sim.FaultKind{sim.F500Before, sim.F409Before, sim.FTimeoutAfter, sim.FCrashBefore, sim.FCrashAfter},
		Modes:    []string{"seq", "lag"},
		EvalKeys: []string{"C02", "C02_requests", "C02_kept"},
		Base: func(env *core.Env, script int, mode string) simCase {
			seed := env.Seed*4409 + int64(script)*32452843 + 3
			return c02Case(seed, mode)
		},
		RandomCase: func(env *core.Env, i int, r *rand.Rand) simCase {
			sc := c02Case(env.CaseSeed(i), modes[i%len(modes)])
			if i%3 != 0 {
				sc.Opt.Faults = &sim.RandomFaults{Pct: 10, Kinds: []sim.FaultKind{sim.F500Before, sim.F409Before, sim.FTimeoutAfter, sim.FCrashBefore, sim.FCrashAfter}, R: rand.New(rand.NewSource(sc.Opt.Seed ^ 0x2)), Until: 200, Crashes: 3}
			}
			return sc
		},
		NonTrivial: func(w *sim.World, hit *sim.Call) bool { return w.Mon.DupRequests > 0 },
		RacePkgs:   []string{"pkg/execution/controllers/croncontroller", "pkg/execution/util/jobconfig", "pkg/execution/util/cronschedule"},
		Phases: []core.Phase{{Name: "keys", Run: c02Keys, Count: tierN(1, 4)},
			{Name: "stress", Race: true, Run: stressPhase(map[string]bool{"C02": true}, 0, ""), Count: tierN(1, 2)}},
	})
}

// c20Case builds a confluent workload with cron.
func c20Case(seed int64, mode string, variant int) simCase {
	r := rand.New(rand.NewSource(seed))
	o := sim.Options{Seed: seed, Mode: mode, MaxInFlight: 1 + r.Intn(2), Horizon: 3 * time.Hour, StepBudget: 200000, Cron: true,
		Kubelet: sim.KubeletOptions{FailRate: 40, MaxRun: 8}, JobCfg: jobCfg(40, 0, 0),
		CronCfg: &configv1alpha1.CronExecutionConfig{MaxMissedSchedules: pointer.Int64(100)}}
	prof := sim.Profile{MinJobConfigs: 1, MaxJobConfigs: 2, MinJobs: 1, MaxJobs: 3, OwnedBias: 50,
		Policies: []execution.ConcurrencyPolicy{execution.ConcurrencyPolicyAllow, execution.ConcurrencyPolicyEnqueue}, MaxConcurrency: 2,
		Parallel: 30, MaxAttempts: 2, MaxRetryDelay: 3, PendingTimeout: []int64{0}, TTL: []int64{40}, Spread: 20, CronJCs: 2, CronStopAfter: 45 * time.Second, TemplateMeta: 25}
	o.StoreYield = r.Intn(2) == 0
	// an interrupted watch is a transient failure too: the cache is rebuilt from a list (tombstones, skipped versions)
	o.Relist = r.Intn(2) == 0
	return simCase{Opt: o, Prof: prof}
}

func c20After(i int, w, base *sim.World, res *core.Result) {
	viol := func(sig, f string, a ...interface{}) {
		res.Violate(core.Violation{Prop: "C20", Sig: sig, Msg: fmt.Sprintf(f, a...), Case: i, Detail: map[string]interface{}{"seed": w.Opt.Seed, "trace": w.Trace}})
	}
	// every due schedule time has its Job (reference stream: seconds field "a/N" of the generated expressions)
	due, missing := w.Mon.MissingSchedules()
	res.Evaluations += due
	res.Count("mon_C20_sched", due)
	for _, m := range missing {
		viol("missed-schedule", "no Job was ever created for due schedule %s", m)
	}
	if base == nil || base == w {
		return
	}
	res.Count("mon_C20_twin", 1)
	res.Evaluations++
	a, b := w.Mon.Outcome(), base.Mon.Outcome()
	var diffs []string
	for k, v := range b {
		if a[k] != v {
			diffs = append(diffs, fmt.Sprintf("%s: fault-free %q, with faults %q", k, v, a[k]))
		}
	}
	for k, v := range a {
		if _, ok := b[k]; !ok {
			diffs = append(diffs, fmt.Sprintf("%s: only with faults %q", k, v))
		}
	}
	sort.Strings(diffs)
	if len(diffs) > 0 {
		if len(diffs) > 4 {
			diffs = diffs[:4]
		}
		viol("outcome-differs-from-fault-free-twin", "outcome differs from the fault-free run with the same seed: %s", strings.Join(diffs, "; "))
	}
}

// c02Case builds a cron-only workload with hostile JobConfig names.
func c02Case(seed int64, mode string) simCase {
	r := rand.New(rand.NewSource(seed))
	o := sim.Options{Seed: seed, Mode: mode, MaxInFlight: 1 + r.Intn(3), Horizon: 2 * time.Hour, StepBudget: 200000, Cron: true,
		Kubelet: sim.KubeletOptions{FailRate: 30, MaxRun: 12}, JobCfg: jobCfg(25, 0, 0),
		CronCfg: &configv1alpha1.CronExecutionConfig{MaxMissedSchedules: pointer.Int64(int64(1 + r.Intn(8)))}}
	prof := sim.Profile{MinJobConfigs: 1, MaxJobConfigs: 3, MinJobs: 0, MaxJobs: 2, OwnedBias: 100, Policies: allPolicies, MaxConcurrency: 2,
		MaxAttempts: 1, PendingTimeout: []int64{0}, TTL: []int64{25}, Spread: 30, CronJCs: 3, CronStopAfter: time.Duration(40+r.Intn(40)) * time.Second,
		Namespaces: []string{"default", "team-a"}, HostileNames: true, DupRequests: 30, DeletePct: 20, TemplateMeta: 50, DeleteNewest: 2}
	o.StoreYield = r.Intn(2) == 0
	return simCase{Opt: o, Prof: prof}
}

var _ = strconv.Itoa

// c02Keys: the cron work-item key <namespace>/<name>.<unix> must round-trip for every legal
// JobConfig name (DNS subdomain names may contain dots and digits) and schedule time, and the
// Job name must be the documented function of (JobConfig name, schedule time).
func c02Keys(env *core.Env, res *core.Result) {
	r := rand.New(rand.NewSource(env.Seed*31337 + int64(env.From)))
	n := 20000
	if env.Tier == "thorough" {
		n = 500000
	}
	parts := []string{"a", "job", "cfg", "1", "2208988800", "0", "x-y", "v1", "9z", "a1b2", "12345678901"}
	for c := 0; c < n; c++ {
		k := 1 + r.Intn(4)
		var p []string
		for i := 0; i < k; i++ {
			p = append(p, parts[r.Intn(len(parts))])
		}
		name := strings.Join(p, ".")
		ns := []string{"default", "team-a", "ns.with.dots"}[r.Intn(3)]
		ts := time.Unix(int64(r.Intn(2_000_000_000))+1_000_000_000, 0)
		jc := &execution.JobConfig{}
		jc.Name, jc.Namespace = name, ns
		key, err := croncontroller.JobConfigKeyFunc(jc, ts)
		res.Evaluations++
		if err != nil {
			res.Violate(core.Violation{Prop: "C02", Sig: "key-func-error", Msg: fmt.Sprintf("JobConfigKeyFunc(%s/%s, %d): %v", ns, name, ts.Unix(), err), Case: -c - 1})
			continue
		}
		nsGot, rest, _ := strings.Cut(key, "/")
		gotName, gotTS, err := croncontroller.SplitJobConfigKeyName(rest)
		if err != nil || nsGot != ns || gotName != name || !gotTS.Equal(ts) {
			res.Violate(core.Violation{Prop: "C02", Sig: "key-round-trip", Msg: fmt.Sprintf("work item key %q of JobConfig %s/%s at %d splits into (%q, %q, %v, err %v)", key, ns, name, ts.Unix(), nsGot, gotName, gotTS.Unix(), err), Case: -c - 1})
		}
		if jn := jobconfig.GenerateName(name, ts); jn != fmt.Sprintf("%s-%d", name, ts.Unix()) {
			res.Violate(core.Violation{Prop: "C02", Sig: "job-name-function", Msg: fmt.Sprintf("GenerateName(%q, %d) = %q", name, ts.Unix(), jn), Case: -c - 1})
		}
		if strings.Contains(name, ".") {
			res.MarkDistinct("key|" + strings.Join(p, "|")[:min(len(strings.Join(p, "|")), 24)])
		}
	}
	res.Count("key_round_trips", n)
}
