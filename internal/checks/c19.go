package checks

import (
	"context"
	"encoding/base64"
	"encoding/json"
	"fmt"
	"math/rand"
	"reflect"
	"sort"
	"strings"
	"sync"
	"sync/atomic"
	"time"

	corev1 "k8s.io/api/core/v1"
	metav1 "k8s.io/apimachinery/pkg/apis/meta/v1"
	k8sfake "k8s.io/client-go/kubernetes/fake"

	configv1alpha1 "github.com/furiko-io/furiko/apis/config/v1alpha1"
	"github.com/furiko-io/furiko/pkg/runtime/configloader"
	"github.com/furiko-io/furiko/pkg/runtime/controllercontext"

	"furikoverif/internal/core"
)

// C19: the production ConfigManager + DefaultsLoader + ConfigMapLoader + SecretLoader on a fake
// Kubernetes clientset with the loaders' own real informers. After every update the three
// getters are compared with an independent field-by-field layering; delivery is awaited on a
// logical marker key, never on time.

// ---- the fields of the three kinds, with the built-in defaults the reference knows

type c19Field struct {
	kind, key string
	typ       string // int | bool | string
	def       interface{}
	hasDef    bool
}

var c19Fields = []c19Field{
	{"jobs", "defaultTTLSecondsAfterFinished", "int", float64(3600), true},
	{"jobs", "defaultPendingTimeoutSeconds", "int", float64(900), true},
	{"jobs", "forceDeleteTaskTimeoutSeconds", "int", float64(900), true},
	{"jobConfigs", "maxEnqueuedJobs", "int", float64(20), true},
	{"cron", "cronFormat", "string", "standard", true},
	{"cron", "cronHashNames", "bool", true, true},
	{"cron", "cronHashSecondsByDefault", "bool", false, true},
	{"cron", "cronHashFields", "bool", true, true},
	{"cron", "defaultTimezone", "string", "UTC", true},
	{"cron", "maxMissedSchedules", "int", float64(5), true},
	{"cron", "maxDowntimeThresholdSeconds", "int", float64(300), true},
}

func c19Value(r *rand.Rand, f c19Field) interface{} {
	switch f.typ {
	case "int":
		return []interface{}{float64(0), float64(1), float64(7), float64(86400), float64(9007199254740000)}[r.Intn(5)]
	case "bool":
		return r.Intn(2) == 0
	default:
		return []interface{}{"", "quartz", "Asia/Tokyo", "x y", "standard"}[r.Intn(5)]
	}
}

// doc is one source's content: kind -> field -> value.
type c19Doc map[string]map[string]interface{}

func c19GenDoc(r *rand.Rand) c19Doc {
	d := c19Doc{}
	for _, f := range c19Fields {
		if r.Intn(3) == 0 {
			if d[f.kind] == nil {
				d[f.kind] = map[string]interface{}{}
			}
			d[f.kind][f.key] = c19Value(r, f)
		}
	}
	if r.Intn(8) == 0 {
		d["cron"] = map[string]interface{}{} // a kind that is present but sets nothing
	}
	return d
}

// render serialises a doc as the data of a ConfigMap (YAML or JSON per kind).
func (d c19Doc) render(r *rand.Rand) map[string]string {
	out := map[string]string{}
	for kind, fields := range d {
		if r.Intn(2) == 0 {
			b, _ := json.Marshal(fields)
			out[kind] = string(b)
			continue
		}
		var sb strings.Builder
		keys := make([]string, 0, len(fields))
		for k := range fields {
			keys = append(keys, k)
		}
		sort.Strings(keys)
		for _, k := range keys {
			b, _ := json.Marshal(fields[k])
			fmt.Fprintf(&sb, "%s: %s\n", k, b)
		}
		if len(keys) == 0 {
			sb.WriteString("{}\n")
		}
		out[kind] = sb.String()
	}
	return out
}

// effective is the reference layering: for every field the highest-priority source that has the key wins.
func c19Effective(cm, sec c19Doc) map[string]interface{} {
	eff := map[string]interface{}{}
	for _, f := range c19Fields {
		var v interface{}
		has := f.hasDef
		if has {
			v = f.def
		}
		for _, src := range []c19Doc{cm, sec} {
			if x, ok := src[f.kind][f.key]; ok {
				v, has = x, true
			}
		}
		if has {
			eff[f.kind+"."+f.key] = v
		}
	}
	return eff
}

// observed flattens what the three getters return into the same shape.
func c19Observed(cfgs *controllercontext.ContextConfigs) (map[string]interface{}, error) {
	j, err := cfgs.Jobs()
	if err != nil {
		return nil, fmt.Errorf("Jobs(): %v", err)
	}
	jc, err := cfgs.JobConfigs()
	if err != nil {
		return nil, fmt.Errorf("JobConfigs(): %v", err)
	}
	c, err := cfgs.Cron()
	if err != nil {
		return nil, fmt.Errorf("Cron(): %v", err)
	}
	o := map[string]interface{}{}
	pi := func(k string, p *int64) {
		if p != nil {
			o[k] = float64(*p)
		}
	}
	pb := func(k string, p *bool) {
		if p != nil {
			o[k] = *p
		}
	}
	pi("jobs.defaultTTLSecondsAfterFinished", j.DefaultTTLSecondsAfterFinished)
	pi("jobs.defaultPendingTimeoutSeconds", j.DefaultPendingTimeoutSeconds)
	pi("jobs.forceDeleteTaskTimeoutSeconds", j.ForceDeleteTaskTimeoutSeconds)
	pi("jobConfigs.maxEnqueuedJobs", jc.MaxEnqueuedJobs)
	o["cron.cronFormat"] = c.CronFormat
	pb("cron.cronHashNames", c.CronHashNames)
	pb("cron.cronHashSecondsByDefault", c.CronHashSecondsByDefault)
	pb("cron.cronHashFields", c.CronHashFields)
	if c.DefaultTimezone != nil {
		o["cron.defaultTimezone"] = *c.DefaultTimezone
	}
	pi("cron.maxMissedSchedules", c.MaxMissedSchedules)
	o["cron.maxDowntimeThresholdSeconds"] = float64(c.MaxDowntimeThresholdSeconds)
	return o, nil
}

func c19Diff(want, got map[string]interface{}) []string {
	var d []string
	keys := map[string]bool{}
	for k := range want {
		keys[k] = true
	}
	for k := range got {
		keys[k] = true
	}
	for k := range keys {
		if !reflect.DeepEqual(want[k], got[k]) {
			d = append(d, fmt.Sprintf("%s: expected %v got %v", k, want[k], got[k]))
		}
	}
	sort.Strings(d)
	return d
}

type c19Sys struct {
	cs   *k8sfake.Clientset
	mgr  *configloader.ConfigManager
	cfgs *controllercontext.ContextConfigs
	stop context.CancelFunc
	seq  map[string]int // per source marker sequence
}

func newC19Sys() (*c19Sys, error) {
	silenceLogs()
	s := &c19Sys{cs: k8sfake.NewSimpleClientset(), seq: map[string]int{}}
	s.mgr = configloader.NewConfigManager()
	s.mgr.AddConfigLoaders(configloader.NewDefaultsLoader(), configloader.NewConfigMapLoader(s.cs, "ns", "cm"), configloader.NewSecretLoader(s.cs, "ns", "sec"))
	s.cfgs = controllercontext.NewContextConfigs(s.mgr)
	ctx, cancel := context.WithCancel(context.Background())
	s.stop = cancel
	if err := s.cfgs.Start(ctx); err != nil {
		cancel()
		return nil, err
	}
	return s, nil
}

type c19Marker struct {
	Seq float64 `json:"seq"`
	Src string  `json:"src"`
}

// put writes the source; bump=true adds the next marker value for the source.
func (s *c19Sys) put(src string, data map[string]string, bump bool) {
	ctx := context.Background()
	d := map[string]string{}
	for k, v := range data {
		d[k] = v
	}
	if bump {
		s.seq[src]++
		d["verif-marker-"+src] = fmt.Sprintf("{\"seq\": %d, \"src\": %q}", s.seq[src], src)
	}
	if src == "cm" {
		cm := &corev1.ConfigMap{ObjectMeta: metav1.ObjectMeta{Namespace: "ns", Name: "cm"}, Data: d}
		if _, err := s.cs.CoreV1().ConfigMaps("ns").Update(ctx, cm, metav1.UpdateOptions{}); err != nil {
			_, _ = s.cs.CoreV1().ConfigMaps("ns").Create(ctx, cm, metav1.CreateOptions{})
		}
		return
	}
	sd := map[string][]byte{}
	for k, v := range d {
		if strings.HasPrefix(v, "!!badbase64") {
			sd[k] = []byte("%%%not-base64%%%")
		} else {
			sd[k] = []byte(base64.StdEncoding.EncodeToString([]byte(v)))
		}
	}
	sec := &corev1.Secret{ObjectMeta: metav1.ObjectMeta{Namespace: "ns", Name: "sec"}, Data: sd}
	if _, err := s.cs.CoreV1().Secrets("ns").Update(ctx, sec, metav1.UpdateOptions{}); err != nil {
		_, _ = s.cs.CoreV1().Secrets("ns").Create(ctx, sec, metav1.CreateOptions{})
	}
}

// await waits on the logical marker of a source (a generous wall-clock bound makes the case inconclusive, never a violation).
func (s *c19Sys) await(src string) bool {
	deadline := time.Now().Add(10 * time.Second)
	for time.Now().Before(deadline) {
		var m c19Marker
		if err := s.mgr.LoadAndUnmarshalConfig(configv1alpha1.ConfigName("verif-marker-"+src), &m); err == nil && int(m.Seq) == s.seq[src] {
			return true
		}
		time.Sleep(50 * time.Microsecond)
	}
	return false
}

func runC19(env *core.Env, res *core.Result) {
	for i := env.From; i < env.To; i++ {
		res.Cases++
		c19One(i, env.Rand(i), res)
	}
}

func c19One(i int, r *rand.Rand, res *core.Result) {
	viol := func(sig, f string, a ...interface{}) {
		res.Violate(core.Violation{Prop: "C19", Sig: sig, Msg: fmt.Sprintf(f, a...), Case: i})
	}
	s, err := newC19Sys()
	if err != nil {
		res.Inconclusive = append(res.Inconclusive, fmt.Sprintf("case %d: config manager did not start: %v", i, err))
		return
	}
	defer s.stop()
	good := map[string]c19Doc{"cm": {}, "sec": {}} // last good document per source (reference)
	rendered := map[string]map[string]string{"cm": {}, "sec": {}}
	var hist []string
	classes := map[string]bool{}
	overlaps := false
	if got, err := c19Observed(s.cfgs); err != nil {
		viol("reader-error", "getters fail before any source exists: %v", err)
		return
	} else if d := c19Diff(c19Effective(nil, nil), got); len(d) > 0 {
		viol("defaults", "with no ConfigMap and no Secret the getters differ from the built-in defaults: %v", d)
	}
	steps := 3 + r.Intn(6)
	for st := 0; st < steps; st++ {
		src := []string{"cm", "sec"}[r.Intn(2)]
		bad := r.Intn(4) == 0
		badMode := r.Intn(4)
		if bad && badMode == 2 {
			src = "sec" // a wrong-typed field must be in the highest-priority source to make the merged value undecodable
		}
		if !bad && len(rendered[src]) > 0 && r.Intn(5) == 0 {
			// the source loses all its keys (no marker can travel with that): every field it used to set falls
			// back to the lower layers. Decided on order, not on time: the emptied state must be observed by dense
			// polling; only if it is not within 10 s *and* a control update of the other source *and* a later
			// marked update of this very source (same watch, hence delivered after the emptying) both arrive is
			// it a violation; anything slower is inconclusive.
			s.put(src, nil, false)
			hist = append(hist, fmt.Sprintf("%s EMPTIED", src))
			classes["source-emptied"] = true
			other := map[string]string{"cm": "sec", "sec": "cm"}[src]
			s.put(other, rendered[other], true)
			if !s.await(other) {
				res.Inconclusive = append(res.Inconclusive, fmt.Sprintf("case %d: control marker of %s never arrived", i, other))
				return
			}
			good[src], rendered[src] = c19Doc{}, map[string]string{}
			want := c19Effective(good["cm"], good["sec"])
			seen := false
			var last []string
			for deadline := time.Now().Add(10 * time.Second); time.Now().Before(deadline) && !seen; {
				got, err := c19Observed(s.cfgs)
				res.Evaluations++
				if err != nil {
					viol("reader-error", "getters fail after %s was emptied: %v", src, err)
					return
				}
				if last = c19Diff(want, got); len(last) == 0 {
					seen = true
				} else {
					time.Sleep(50 * time.Microsecond)
				}
			}
			s.put(src, nil, true) // only the marker: still sets no field
			if !s.await(src) {
				res.Inconclusive = append(res.Inconclusive, fmt.Sprintf("case %d: marker of %s never arrived after it was emptied", i, src))
				return
			}
			if !seen {
				viol("emptied-source-still-applied", "%s lost all its keys, but for 10 s readers kept getting values it used to set although later updates of both sources were delivered: %v; history: %s", src, last, strings.Join(tail(hist, 4), " | "))
				return
			}
		} else if !bad {
			doc := c19GenDoc(r)
			data := doc.render(r)
			s.put(src, data, true)
			if !s.await(src) {
				res.Inconclusive = append(res.Inconclusive, fmt.Sprintf("case %d: marker of %s never arrived", i, src))
				return
			}
			good[src], rendered[src] = doc, data
			hist = append(hist, fmt.Sprintf("%s good %v", src, data))
			classes["good-"+src] = true
			for _, f := range c19Fields {
				_, a := good["cm"][f.kind][f.key]
				_, b := good["sec"][f.kind][f.key]
				if a && b {
					overlaps = true
				}
				if v, ok := doc[f.kind][f.key]; ok && (v == float64(0) || v == false || v == "") {
					classes["zero-value-override"] = true
				}
			}
		} else {
			// a bad update: the whole document must be ignored, or the merged value is undecodable and the last good typed config is served
			data := map[string]string{}
			for k, v := range c19GenDoc(r).render(r) {
				data[k] = v
			}
			kind := []string{"jobs", "jobConfigs", "cron"}[r.Intn(3)]
			var mode string
			switch badMode {
			case 0:
				data[kind] = "maxMissedSchedules: [oops"
				mode = "malformed-yaml"
			case 1:
				data[kind] = "{\"defaultTTLSecondsAfterFinished\": "
				mode = "malformed-json"
			case 2:
				f := c19Fields[r.Intn(len(c19Fields))]
				wrong := map[string]string{"int": "\"abc\"", "bool": "\"maybe\"", "string": "[1,2]"}[f.typ]
				data[f.kind] = fmt.Sprintf("%s: %s\n", f.key, wrong)
				mode = "wrong-type"
			default:
				if src == "sec" {
					data[kind] = "!!badbase64"
					mode = "bad-base64"
				} else {
					data[kind] = "\t- not: [valid"
					mode = "malformed-yaml"
				}
			}
			classes["bad-"+mode] = true
			before, err := c19Observed(s.cfgs)
			if err != nil {
				viol("reader-error", "getters fail before the bad update: %v", err)
				return
			}
			if mode == "wrong-type" {
				// parses as a document, so the loader accepts it and the marker arrives; the typed decode fails
				s.put(src, data, true)
				if !s.await(src) {
					res.Inconclusive = append(res.Inconclusive, fmt.Sprintf("case %d: marker of %s never arrived (wrong-type update)", i, src))
					return
				}
			} else {
				s.put(src, data, false)
			}
			hist = append(hist, fmt.Sprintf("%s BAD(%s) %v", src, mode, data))
			// readers during and after the bad update: never an error, and (for the kinds whose
			// effective value is unreadable) exactly the previous good value
			for k := 0; k < 60; k++ {
				got, err := c19Observed(s.cfgs)
				res.Evaluations++
				if err != nil {
					viol("reader-error-after-bad-update", "after a %s update of %s a reader got an error instead of the last good configuration: %v; history: %s", mode, src, err, strings.Join(tail(hist, 4), " | "))
					return
				}
				if mode != "wrong-type" {
					if d := c19Diff(before, got); len(d) > 0 {
						viol("partial-or-lost-after-bad-update", "after a %s update of %s readers no longer get the last good configuration: %v; history: %s", mode, src, d, strings.Join(tail(hist, 4), " | "))
						return
					}
				}
				time.Sleep(30 * time.Microsecond)
			}
			if mode == "wrong-type" {
				// the affected kind falls back to its last good typed value; the other kinds follow the new document
				got, _ := c19Observed(s.cfgs)
				for k, v := range before {
					if strings.HasPrefix(k, wrongKind(data, hist)+".") && !reflect.DeepEqual(got[k], v) {
						viol("fallback-not-last-good", "kind with an undecodable field does not serve its last good value: %s was %v now %v; history: %s", k, v, got[k], strings.Join(tail(hist, 4), " | "))
					}
				}
			}
			// fence: re-apply the last good document; when its marker arrives the bad update has been handled
			s.put(src, rendered[src], true)
			if !s.await(src) {
				res.Inconclusive = append(res.Inconclusive, fmt.Sprintf("case %d: fence marker of %s never arrived", i, src))
				return
			}
			classes["recovered-after-bad"] = true
		}
		got, err := c19Observed(s.cfgs)
		res.Evaluations++
		if err != nil {
			viol("reader-error", "getters fail after a good update: %v; history: %s", err, strings.Join(tail(hist, 4), " | "))
			return
		}
		if d := c19Diff(c19Effective(good["cm"], good["sec"]), got); len(d) > 0 {
			sig := "layering"
			if bad {
				sig = "not-recovered-after-fix"
			}
			viol(sig, "effective configuration differs from the field-by-field layering (defaults < ConfigMap < Secret): %v; ConfigMap=%v Secret=%v; history: %s", d, good["cm"], good["sec"], strings.Join(tail(hist, 4), " | "))
			return
		}
	}
	if overlaps {
		classes["two-layers-same-field"] = true
	}
	var cl []string
	for c := range classes {
		cl = append(cl, c)
		res.Count("class_"+c, 1)
	}
	sort.Strings(cl)
	if overlaps || len(cl) > 2 {
		res.MarkDistinct(strings.Join(hist, "\n"))
		res.Sample(map[string]interface{}{"case": i, "classes": cl, "updates": hist}, 3)
	}
}

// wrongKind finds the kind whose document carries the wrong-typed field (the one rendered as a single "key: value" line).
func wrongKind(data map[string]string, _ []string) string {
	for k, v := range data {
		if strings.Contains(v, "\"abc\"") || strings.Contains(v, "\"maybe\"") || strings.Contains(v, "[1,2]") {
			return k
		}
	}
	return "?"
}

// c19Race: readers on real goroutines while both sources are updated, under the race detector.
// Values carry the update number so that a reader can tell old from new from garbage.
func c19Race(env *core.Env, res *core.Result) {
	s, err := newC19Sys()
	if err != nil {
		res.Inconclusive = append(res.Inconclusive, "config manager did not start: "+err.Error())
		return
	}
	defer s.stop()
	dur := 4 * time.Second
	if env.Tier == "thorough" {
		dur = 20 * time.Second
	}
	var cmN, secN int64 // number of the latest update written
	var stop int32
	var wg sync.WaitGroup
	var mu sync.Mutex
	viol := func(sig, f string, a ...interface{}) {
		mu.Lock()
		defer mu.Unlock()
		res.Violate(core.Violation{Prop: "C19", Sig: sig, Msg: fmt.Sprintf(f, a...), Case: env.From})
	}
	s.put("cm", map[string]string{"cron": "maxMissedSchedules: 1\nmaxDowntimeThresholdSeconds: 1001"}, true)
	s.put("sec", map[string]string{"jobs": "defaultTTLSecondsAfterFinished: 1\ndefaultPendingTimeoutSeconds: 1001"}, true)
	if !s.await("cm") || !s.await("sec") {
		res.Inconclusive = append(res.Inconclusive, "initial markers never arrived")
		return
	}
	atomic.StoreInt64(&cmN, 1)
	atomic.StoreInt64(&secN, 1)
	var reads int64
	for g := 0; g < 4; g++ {
		wg.Add(1)
		go func() {
			defer wg.Done()
			lastC, lastJ := int64(0), int64(0)
			for atomic.LoadInt32(&stop) == 0 {
				hiC, hiJ := atomic.LoadInt64(&cmN), atomic.LoadInt64(&secN)
				_ = hiC
				_ = hiJ
				c, err := s.cfgs.Cron()
				if err != nil {
					viol("reader-error-under-updates", "Cron() returned an error while the ConfigMap was being updated: %v", err)
					return
				}
				j, err := s.cfgs.Jobs()
				if err != nil {
					viol("reader-error-under-updates", "Jobs() returned an error while the Secret was being updated: %v", err)
					return
				}
				atomic.AddInt64(&reads, 1)
				k := *c.MaxMissedSchedules
				if c.MaxDowntimeThresholdSeconds != k+1000 {
					viol("torn-read", "Cron() mixes two documents: maxMissedSchedules=%d maxDowntimeThresholdSeconds=%d", k, c.MaxDowntimeThresholdSeconds)
					return
				}
				if k < lastC || k > atomic.LoadInt64(&cmN) {
					viol("neither-old-nor-new", "Cron() returned update %d after %d had been read (latest written %d)", k, lastC, atomic.LoadInt64(&cmN))
					return
				}
				lastC = k
				kj := *j.DefaultTTLSecondsAfterFinished
				if *j.DefaultPendingTimeoutSeconds != kj+1000 {
					viol("torn-read", "Jobs() mixes two documents: ttl=%d pending=%d", kj, *j.DefaultPendingTimeoutSeconds)
					return
				}
				if kj < lastJ || kj > atomic.LoadInt64(&secN) {
					viol("neither-old-nor-new", "Jobs() returned update %d after %d had been read (latest written %d)", kj, lastJ, atomic.LoadInt64(&secN))
					return
				}
				lastJ = kj
			}
		}()
	}
	end := time.Now().Add(dur)
	n := int64(1)
	for time.Now().Before(end) {
		n++
		atomic.StoreInt64(&cmN, n)
		s.put("cm", map[string]string{"cron": fmt.Sprintf("maxMissedSchedules: %d\nmaxDowntimeThresholdSeconds: %d", n, n+1000)}, false)
		atomic.StoreInt64(&secN, n)
		s.put("sec", map[string]string{"jobs": fmt.Sprintf("defaultTTLSecondsAfterFinished: %d\ndefaultPendingTimeoutSeconds: %d", n, n+1000)}, false)
		if n%7 == 0 { // a malformed document in between must be invisible to readers
			s.put("cm", map[string]string{"cron": "maxMissedSchedules: [oops"}, false)
		}
		time.Sleep(200 * time.Microsecond)
	}
	atomic.StoreInt32(&stop, 1)
	wg.Wait()
	res.Cases++
	res.Evaluations += int(atomic.LoadInt64(&reads))
	res.Count("race_phase_reads", int(atomic.LoadInt64(&reads)))
	res.Count("race_phase_updates", int(2*n))
	res.MarkDistinct(fmt.Sprintf("race-phase-%d", env.From))
}

func init() {
	core.Register(&core.Check{
		ID: "C19", Level: "exploration",
		Rule: "each case = a sequence of 3-8 updates to the ConfigMap or the Secret: good documents setting a random subset of the fields of the three kinds (values incl. zero / false / empty / extreme; YAML or JSON) or bad ones (malformed YAML/JSON, wrong-typed field, bad base64, one bad key among good ones); after each applied update (awaited on a logical marker key) Jobs()/JobConfigs()/Cron() of the production ConfigManager are compared with an independent field-by-field layering, after each bad update 60 reads must return no error and the last good value, and a fence update proves recovery; plus a -race phase with 4 reader goroutines during ~10^4 updates of both sources (torn / non-monotone / erroring reads, race reports in configloader / controllercontext); " +
			"non-trivial = two layers set the same field, or a bad update occurs; distinct = distinct update sequence",
		Assumptions: []string{"mergo, mapstructure and the YAML decoder are trusted libraries; the fake Kubernetes clientset's watch stands in for the API server", "the harness reads after every update, so 'last good' is the value of the previous read"},
		Cases:       tierN(400, 20000),
		Run:         runC19,
		RacePkgs:    []string{"pkg/runtime/configloader", "pkg/runtime/controllercontext"},
		Phases:      []core.Phase{{Name: "race", Race: true, Run: c19Race, Count: tierN(1, 3)}},
		MinDistinct: 5,
	})
}
