package checks

import (
	"os"
	"context"
	"fmt"
	"math/rand"
	"strings"
	"time"

	apiequality "k8s.io/apimachinery/pkg/api/equality"
	metav1 "k8s.io/apimachinery/pkg/apis/meta/v1"

	execution "github.com/furiko-io/furiko/apis/execution/v1alpha1"

	"furikoverif/internal/core"
	"furikoverif/internal/sim"
)

// C03: histories of JobConfig create / update / enable / disable / delete / recreate events,
// written through the real webhooks, delivered to the production InformerWorker with a lag
// chosen by the case, interleaved with ticks of the production CronWorker. The reference is
// the C01 cursor model with epochs: a delivered schedule change re-bases the JobConfig on its
// new schedule at the clock of the first tick after the delivery.

type c03Pending struct {
	kind string // add | update | delete
	obj  *execution.JobConfig
}

type c03Model struct {
	g       cronConfigGen
	refs    map[string]*refJC               // key -> scheduled state (absent: not scheduled)
	cache   map[string]*execution.JobConfig // what the controller's cache holds
	pending []c03Pending
}

func (m *c03Model) deliver(ev *sim.Event) (relevant bool) {
	jc := ev.Object.(*execution.JobConfig)
	key := jc.Namespace + "/" + jc.Name
	switch ev.Type {
	case sim.Added:
		m.cache[key] = jc
		m.pending = append(m.pending, c03Pending{"add", jc})
		return true
	case sim.Modified:
		old := m.cache[key]
		m.cache[key] = jc
		if old == nil {
			m.pending = append(m.pending, c03Pending{"add", jc})
			return true
		}
		if !apiequality.Semantic.DeepEqual(old.Spec.Schedule, jc.Spec.Schedule) {
			m.pending = append(m.pending, c03Pending{"update", jc})
			return true
		}
	case sim.Deleted:
		if _, ok := m.cache[key]; ok {
			delete(m.cache, key)
			m.pending = append(m.pending, c03Pending{"delete", jc})
			return true
		}
	}
	return false
}

// flush applies the delivered changes at the tick whose clock reads now.
func (m *c03Model) flush(now time.Time) error {
	for _, p := range m.pending {
		key := p.obj.Namespace + "/" + p.obj.Name
		switch p.kind {
		case "add":
			if _, ok := m.refs[key]; ok {
				continue // already being scheduled (one of the initial notifications)
			}
		case "update", "delete":
			delete(m.refs, key)
			if cur := m.cache[key]; p.kind == "delete" || cur == nil || cur.UID != p.obj.UID {
				continue
			}
		}
		s, err := refParse(p.obj, m.g)
		if err != nil {
			return fmt.Errorf("%s: %v", key, err)
		}
		if !s.active {
			continue
		}
		// from the moment of the change, nothing back-dated. A JobConfig the controller sees for the first time
		// starts the way it does at a controller start (C04's bound): when the first copy it sees already records a
		// last schedule time - possible only when the watch skipped its early versions - from there, never from
		// before its last schedule change; otherwise from now.
		cursor := now
		if p.kind == "add" {
			down := 300 * time.Second
			if m.g.MaxDowntime > 0 {
				down = time.Duration(m.g.MaxDowntime) * time.Second
			}
			cursor, _ = c04Bound(p.obj, now, down)
		}
		m.refs[key] = &refJC{sched: s, cursor: cursor, uid: string(p.obj.UID), desc: describeSched(p.obj)}
	}
	m.pending = nil
	return nil
}

func describeSched(jc *execution.JobConfig) string {
	sp := jc.Spec.Schedule
	if sp == nil || sp.Cron == nil {
		return jc.Namespace + "/" + jc.Name + " (no schedule)"
	}
	lines := append([]string{}, sp.Cron.Expressions...)
	if sp.Cron.Expression != "" {
		lines = append(lines, sp.Cron.Expression)
	}
	w := ""
	if c := sp.Constraints; c != nil {
		if c.NotBefore != nil {
			w += " nbf=" + c.NotBefore.UTC().Format("15:04:05")
		}
		if c.NotAfter != nil {
			w += " naf=" + c.NotAfter.UTC().Format("15:04:05")
		}
	}
	return fmt.Sprintf("%s/%s %q tz=%q disabled=%v%s", jc.Namespace, jc.Name, lines, sp.Cron.Timezone, sp.Disabled, w)
}

// frequentExpr generates expressions that fire every few seconds/minutes so that short histories observe many firings.
func frequentExpr(r *rand.Rand, quartz, allowH bool) string {
	switch r.Intn(8) {
	case 0:
		return "* * * * *"
	case 1:
		return fmt.Sprintf("*/%d * * * *", 1+r.Intn(5))
	case 2:
		return fmt.Sprintf("%d/%d * * * * * *", r.Intn(10), 1+r.Intn(20))
	case 3:
		return fmt.Sprintf("*/%d * * * * * *", 1+r.Intn(30))
	case 4:
		if allowH {
			return "H/2 * * * *"
		}
		return "*/2 * * * *"
	case 5:
		return fmt.Sprintf("%d,%d,%d * * * * * *", r.Intn(60), r.Intn(60), r.Intn(60))
	case 6:
		return fmt.Sprintf("0 %d-%d * * * *", r.Intn(30), 30+r.Intn(30))
	}
	return genExpr(r, quartz, allowH)
}

func runC03(env *core.Env, res *core.Result) {
	for i := env.From; i < env.To; i++ {
		res.Cases++
		c03One(i, env.Rand(i), res)
		if cronHung {
			core.AbortWorker(res, env.To-i-1)
		}
	}
}

func c03One(i int, r *rand.Rand, res *core.Result) {
	ctx := context.Background()
	g := genCronConfig(r)
	quartz := g.Format == "quartz"
	start := time.Date(2040, time.Month(1+r.Intn(12)), 1+r.Intn(28), r.Intn(24), r.Intn(60), r.Intn(60), r.Intn(2)*500_000_000, time.UTC)
	h := newCronHarness(start.Add(-time.Duration(1+r.Intn(600))*time.Second), g.config())
	viol := func(sig, f string, a ...interface{}) {
		res.Violate(core.Violation{Prop: "C03", Sig: sig, Msg: fmt.Sprintf(f, a...), Case: i})
	}
	names := []string{"a", "b", "c", "d"}[:2+r.Intn(3)]
	exists := map[string]bool{}
	var hist []string
	note := func(f string, a ...interface{}) {
		if len(hist) < 60 {
			hist = append(hist, fmt.Sprintf("%s ", h.clk.T.UTC().Format("15:04:05.000"))+fmt.Sprintf(f, a...))
		}
	}
	newJC := func(name string) *execution.JobConfig {
		n := 1
		if r.Intn(5) == 0 {
			n = 2
		}
		var lines []string
		for k := 0; k < n; k++ {
			lines = append(lines, frequentExpr(r, quartz, g.hashNames()))
		}
		jc := cronJobConfig("default", name, lines, tzChoices[r.Intn(len(tzChoices))])
		switch r.Intn(8) {
		case 0:
			jc.Spec.Schedule.Disabled = true
		case 1:
			jc.Spec.Schedule = nil
		}
		return jc
	}
	// initial population, created before the controller starts
	for _, n := range names {
		if r.Intn(2) == 0 {
			if _, err := h.jcClient("default").Create(ctx, newJC(n), metav1.CreateOptions{}); err == nil {
				exists[n] = true
			}
		}
	}
	h.clk.Set(start)
	if err := h.boot(); err != nil {
		viol("init-failed", "CronWorker.Init failed: %v", err)
		return
	}
	m := &c03Model{g: g, refs: map[string]*refJC{}, cache: map[string]*execution.JobConfig{}}
	for _, o := range h.api.List(sim.KJobConfig) {
		jc := o.(*execution.JobConfig)
		key := jc.Namespace + "/" + jc.Name
		m.cache[key] = jc
		s, err := refParse(jc, g)
		if err != nil {
			res.Count("reference_cannot_parse_accepted_spec", 1)
			return
		}
		if s.active {
			m.refs[key] = &refJC{sched: s, cursor: start, uid: string(jc.UID), desc: describeSched(jc)}
		}
	}
	classes := map[string]bool{}
	var abs strings.Builder // abstract history: operation classes, lag and tick marks in order (names, times and expressions erased)
	maxMissed := g.maxMissed()
	moments := 50 + r.Intn(90)
	fired, changes := 0, 0
	lastTS := map[string]time.Time{} // uid -> last requested time
	for step := 0; step < moments; step++ {
		var d time.Duration
		switch x := r.Intn(20); {
		case x < 12:
			d = time.Second
		case x < 15:
			d = time.Duration(r.Intn(2500)) * time.Millisecond
		case x < 19:
			d = time.Duration(2+r.Intn(120)) * time.Second
		default:
			d = time.Duration(5+r.Intn(90)) * time.Minute
			classes["stall"] = true
		}
		h.clk.Set(h.clk.T.Add(d))
		// user operations at this moment
		nops := []int{0, 0, 1, 1, 1, 2, 3}[r.Intn(7)]
		for o := 0; o < nops; o++ {
			name := names[r.Intn(len(names))]
			jcs := h.jcClient("default")
			if !exists[name] {
				jc := newJC(name)
				if _, err := jcs.Create(ctx, jc, metav1.CreateOptions{}); err == nil {
					exists[name] = true
					classes["create-after-start"] = true
					abs.WriteString("C")
					note("create %s", describeSched(jc))
				} else {
					res.Count("writes_rejected_by_admission", 1)
				}
				continue
			}
			cur, err := jcs.Get(ctx, name, metav1.GetOptions{})
			if err != nil {
				continue
			}
			op := r.Intn(12)
			switch {
			case op == 0:
				_ = jcs.Delete(ctx, name, metav1.DeleteOptions{})
				exists[name] = false
				classes["delete"] = true
				abs.WriteString("D")
				note("delete %s", name)
				if r.Intn(2) == 0 { // recreate under the same name right away
					jc := newJC(name)
					if _, err := jcs.Create(ctx, jc, metav1.CreateOptions{}); err == nil {
						exists[name] = true
						classes["recreate"] = true
						abs.WriteString("R")
						note("recreate %s", describeSched(jc))
					}
				}
				continue
			case op == 1:
				if cur.Labels == nil {
					cur.Labels = map[string]string{}
				}
				cur.Labels["touched"] = fmt.Sprint(step)
				classes["label-update"] = true
			case op == 2:
				// status-only write by another controller
				ts := metav1.NewTime(h.clk.T.Truncate(time.Second))
				cur.Status.LastScheduled = &ts
				_, _ = h.ctrl.Furiko().ExecutionV1alpha1().JobConfigs("default").UpdateStatus(ctx, cur, metav1.UpdateOptions{})
				classes["status-update"] = true
				continue
			case cur.Spec.Schedule == nil:
				cur.Spec.Schedule = newJC(name).Spec.Schedule
				classes["schedule-added"] = true
			case op == 3:
				cur.Spec.Schedule = nil
				classes["schedule-removed"] = true
			case op <= 5:
				cur.Spec.Schedule.Disabled = !cur.Spec.Schedule.Disabled
				classes["enable-disable"] = true
			case op <= 7 && cur.Spec.Schedule.Cron != nil:
				cur.Spec.Schedule.Cron.Expressions = nil
				cur.Spec.Schedule.Cron.Expression = frequentExpr(r, quartz, g.hashNames())
				classes["expression-changed"] = true
			case op == 8 && cur.Spec.Schedule.Cron != nil:
				cur.Spec.Schedule.Cron.Timezone = tzChoices[r.Intn(len(tzChoices))]
				classes["timezone-changed"] = true
			default:
				c := &execution.ScheduleContraints{}
				switch r.Intn(4) {
				case 0:
					t := metav1.NewTime(h.clk.T.Add(time.Duration(5+r.Intn(600)) * time.Second).Truncate(time.Second))
					c.NotBefore = &t
					classes["notBefore-added"] = true
				case 1:
					t := metav1.NewTime(h.clk.T.Add(time.Duration(5+r.Intn(900)) * time.Second).Truncate(time.Second))
					c.NotAfter = &t
					classes["notAfter-added"] = true
				case 2:
					t := metav1.NewTime(h.clk.T.Add(-time.Duration(r.Intn(600)) * time.Second).Truncate(time.Second))
					c.NotBefore = &t
				default:
					c = nil
				}
				cur.Spec.Schedule.Constraints = c
				classes["constraints-changed"] = true
			}
			abs.WriteString(fmt.Sprintf("u%d", op))
			if upd, err := jcs.Update(ctx, cur, metav1.UpdateOptions{}); err == nil {
				note("update %s", describeSched(upd))
			} else {
				res.Count("writes_rejected_by_admission", 1)
			}
		}
		// the watch broke while two or more changes were outstanding: the cache is replaced by a fresh list
		// (skipped versions are never seen; objects that vanished arrive as tombstones with the cache's last copy)
		if h.ctx.Inf.JC.Behind(h.api) >= 2 && r.Intn(4) == 0 {
			plan := h.ctx.Inf.JC.PlanRelist(h.api)
			if os.Getenv("VERIF_DEBUG") != "" {
				for _, ev := range plan {
					jc := ev.Object.(*execution.JobConfig)
					ou := ""
					if ev.Old != nil {
						ou = string(ev.Old.(*execution.JobConfig).UID)
					}
					fmt.Fprintf(os.Stderr, "DEBUG step %d %v relist %s %s uid %s (old uid %s) %s\n", step, h.clk.T.UTC().Format("15:04:05.000"), ev.Type, jc.Name, jc.UID, ou, describeSched(jc))
				}
			}
			_, tomb := h.ctx.Inf.JC.Relist(h.api)
			for _, ev := range plan {
				if m.deliver(ev) {
					changes++
				}
			}
			classes["relist"] = true
			if tomb > 0 {
				classes["relist-tombstone"] = true
			}
			abs.WriteString("X")
		}
		// deliveries: everything, a prefix, or nothing (lag)
		pend := 0
		for s := h.ctx.Inf.JC.NextSeq(h.api); s >= 0; s = h.ctx.Inf.JC.NextSeq(h.api) {
			lagged := r.Intn(5) == 0
			if lagged && pend >= 0 {
				classes["delivery-lag"] = true
				abs.WriteString("L")
				break
			}
			ev := h.api.EventAt(s)
			if os.Getenv("VERIF_DEBUG") != "" {
				jc := ev.Object.(*execution.JobConfig)
				fmt.Fprintf(os.Stderr, "DEBUG step %d %v deliver %s %s uid %s %s\n", step, h.clk.T.UTC().Format("15:04:05.000"), ev.Type, jc.Name, jc.UID, describeSched(jc))
			}
			h.ctx.Inf.JC.DeliverOne(h.api)
			if m.deliver(ev) {
				changes++
			}
			pend++
		}
		abs.WriteString(".")
		if r.Intn(6) == 0 {
			abs.WriteString("-")
			continue // no tick at this moment: several changes accumulate between two ticks
		}
		now := h.clk.T
		if len(m.pending) > 1 {
			classes["several-changes-in-one-tick"] = true
		}
		for _, p := range m.pending {
			if ref := m.refs[p.obj.Namespace+"/"+p.obj.Name]; ref != nil && p.kind != "add" {
				if nx := ref.sched.next(ref.cursor); !nx.IsZero() && !nx.After(now) {
					classes["change-while-firing-overdue"] = true
				}
			}
		}
		if err := m.flush(now); err != nil {
			res.Count("reference_cannot_parse_accepted_spec", 1)
			return
		}
		got, _, tickOK := h.tick(0)
		if os.Getenv("VERIF_DEBUG") != "" {
			fmt.Fprintf(os.Stderr, "DEBUG step %d %v tick got %v\n", step, h.clk.T.UTC().Format("15:04:05.000"), got)
		}
		if !tickOK {
			viol("work-does-not-terminate", "CronWorker.Work() did not return at %v (more than %d clock readings in one tick)", h.clk.T.UTC(), h.clk.Reads-1)
			return
		}
		res.Evaluations++
		keys := map[string]bool{}
		for k := range m.refs {
			keys[k] = true
		}
		for _, q := range got {
			keys[q.Key] = true
			fired++
			if q.TS.After(now) {
				viol("early", "moment %d: %s requested for %v while the clock reads %v", step, q.Key, q.TS.UTC(), now.UTC())
			}
			if !q.TS.After(lastTS[q.UID]) {
				viol("not-increasing", "moment %d: %s (uid %s) requested for %v after %v", step, q.Key, q.UID, q.TS.Unix(), lastTS[q.UID].Unix())
			}
			lastTS[q.UID] = q.TS
		}
		for k := range keys {
			ref := m.refs[k]
			var exp []time.Time
			desc := k + " (not scheduled: disabled, without schedule, deleted or never delivered)"
			if ref != nil {
				exp, _ = ref.sched.expectTick(&ref.cursor, now, maxMissed)
				desc = ref.desc
			}
			gotK := reqTimes(got, k)
			if fmt.Sprint(unixList(gotK)) != fmt.Sprint(unixList(exp)) {
				sig := "stream-mismatch"
				switch {
				case ref == nil:
					sig = "fired-while-not-scheduled"
				case len(gotK) == 0:
					sig = "missing-firing"
				case ref.sched.nbf != nil && gotK[0].Before(*ref.sched.nbf):
					sig = "fired-before-notBefore"
				}
				viol(sig, "moment %d at %v: %s expected %v got %v (maxMissedSchedules %d); history: %s", step, now.UTC().Format("15:04:05.000"), desc, fmtTimes(exp), fmtTimes(gotK), maxMissed, strings.Join(tail(hist, 8), " | "))
				if ref != nil { // resynchronise
					ref.cursor = now
				}
			}
			if ref != nil {
				for _, q := range got {
					if q.Key == k && q.UID != ref.uid {
						viol("wrong-incarnation", "moment %d: request for %s carries uid %s, the scheduled incarnation is %s", step, k, q.UID, ref.uid)
					}
				}
			}
		}
	}
	res.Count("requests_observed", fired)
	res.Count("schedule_changes_delivered", changes)
	if changes > 0 && fired > 0 {
		var cl []string
		for c := range classes {
			cl = append(cl, c)
			res.Count("class_"+c, 1)
		}
		sortStrings(cl)
		res.MarkDistinct(abs.String())
		res.Sample(map[string]interface{}{"case": i, "abstract_history": abs.String(), "moments": moments, "requests": fired, "changes_delivered": changes, "classes": cl, "history_head": head(hist, 12)}, 3)
	}
}

func fmtTimes(ts []time.Time) []string {
	var o []string
	for _, t := range ts {
		o = append(o, t.UTC().Format("15:04:05"))
	}
	return o
}

func tail(l []string, n int) []string {
	if len(l) > n {
		return l[len(l)-n:]
	}
	return l
}

func init() {
	core.Register(&core.Check{
		ID: "C03", Level: "exploration",
		Rule: "seeded histories of 50-140 moments on 2-4 JobConfig names: create after controller start, update of expression / timezone / constraints (notBefore/notAfter added, moved, removed), enable / disable, schedule removed / added, delete, delete-and-recreate under the same name, label-only and status-only writes - all written through the real webhooks (lastUpdated stamped by the real mutation) - delivered to the production InformerWorker completely, partially or not at all before each tick of the production CronWorker (1 s, sub-second, minutes, stalls); " +
			"non-trivial = at least one delivered schedule-affecting change and one observed request; distinct = distinct abstract history (sequence of operation classes, delivery-lag marks and tick marks with names, times and expressions erased)",
		Assumptions: []string{"times between a change and the first tick after its delivery are indeterminate (tick granularity) and neither demanded nor forbidden", "cronexpr.Next trusted as in C01"},
		Cases:       tierN(300, 20000),
		Run:         runC03,
		MinDistinct: 5,
	})
}
