//go:build race

package core

// RaceEnabled reports whether the binary was built with -race.
const RaceEnabled = true
