// Package core holds what every check shares: the shard result type, the
// parent/worker protocol, evidence and replay I/O and the known-findings file.
package core

import (
	"crypto/sha1"
	"encoding/hex"
	"encoding/json"
	"fmt"
	"math/rand"
	"os"
	"os/exec"
	"path/filepath"
	"regexp"
	"runtime"
	"sort"
	"strconv"
	"strings"
	"sync"
	"syscall"
	"time"
)

// Root is the directory of the verification framework.
var Root = func() string {
	if v := os.Getenv("VERIF_ROOT"); v != "" {
		return v
	}
	return "/verif"
}()

// Violation is one refuted obligation.
type Violation struct {
	Prop   string      `json:"property"`
	Sig    string      `json:"sig"`  // stable classification of what fails; matched against known findings
	Msg    string      `json:"msg"`  // human readable witness
	Case   int         `json:"case"` // case index that produced it
	Detail interface{} `json:"detail,omitempty"`
}

// Result is what a worker reports for a range of cases.
type Result struct {
	Prop         string            `json:"prop"`
	Cases        int               `json:"cases"`
	Evaluations  int               `json:"evaluations"`
	Distinct     map[string]bool   `json:"distinct"` // hashes of distinct non-trivial cases
	Counters     map[string]int    `json:"counters"`
	Samples      []interface{}     `json:"samples"`
	Violations   []Violation       `json:"violations"`
	Inconclusive []string          `json:"inconclusive"`
	Notes        map[string]string `json:"notes,omitempty"`
}

func NewResult(prop string) *Result {
	return &Result{Prop: prop, Distinct: map[string]bool{}, Counters: map[string]int{}}
}

func (r *Result) Count(k string, n int) { r.Counters[k] += n }

// MarkDistinct records a non-trivial case by its abstract description.
func (r *Result) MarkDistinct(desc string) {
	h := sha1.Sum([]byte(desc))
	r.Distinct[hex.EncodeToString(h[:8])] = true
}

func (r *Result) Sample(s interface{}, max int) {
	if len(r.Samples) < max {
		r.Samples = append(r.Samples, s)
	}
}

func (r *Result) Violate(v Violation) {
	if len(r.Violations) < 200 {
		r.Violations = append(r.Violations, v)
	} else {
		r.Counters["violations_dropped"]++
	}
}

func (r *Result) Merge(o *Result) {
	r.Cases += o.Cases
	r.Evaluations += o.Evaluations
	for k := range o.Distinct {
		r.Distinct[k] = true
	}
	for k, v := range o.Counters {
		r.Counters[k] += v
	}
	for _, s := range o.Samples {
		if len(r.Samples) < 12 {
			r.Samples = append(r.Samples, s)
		}
	}
	r.Violations = append(r.Violations, o.Violations...)
	r.Inconclusive = append(r.Inconclusive, o.Inconclusive...)
	for k, v := range o.Notes {
		if r.Notes == nil {
			r.Notes = map[string]string{}
		}
		r.Notes[k] = v
	}
}

// Env is what a worker gets.
type Env struct {
	Prop  string
	Tier  string
	Seed  int64
	From  int
	To    int
	Race  bool // binary was built with -race
	Extra string
}

// CaseSeed derives the PRNG seed of case i.
func (e *Env) CaseSeed(i int) int64 {
	return e.Seed*1000003 + int64(i)*7919 + 17
}

func (e *Env) Rand(i int) *rand.Rand { return rand.New(rand.NewSource(e.CaseSeed(i))) }

// Check is the definition of one property's check.
type Check struct {
	ID          string
	Level       string // exploration | fault_enumeration
	Rule        string
	Assumptions []string
	// Cases returns the number of cases for a tier.
	Cases func(tier string) int
	// Run executes cases [env.From, env.To) inside a worker process.
	Run func(env *Env, res *Result)
	// Phases are additional named worker phases run by the parent after the
	// sharded cases (e.g. a -race stress run). Each runs in its own child.
	Phases []Phase
	// MinDistinct is the observed-nothing guard.
	MinDistinct int
	// Shards overrides the number of child processes (0 = default).
	Shards func(tier string) int
	// WatchdogPerShard is the wall-clock limit of one child (inconclusive when hit).
	Watchdog func(tier string) time.Duration
	// RacePkgs: a race report with a frame in one of these repository packages counts against this property.
	RacePkgs []string
}

// Phase is an extra child process run.
type Phase struct {
	Name string
	Race bool   // use the -race binary
	Tier string // "" = both tiers, else only this tier
	Run  func(env *Env, res *Result)
	// Count is how many children (each gets From=i,To=i+1).
	Count func(tier string) int
}

var registry = map[string]*Check{}

func Register(c *Check)       { registry[c.ID] = c }
func Lookup(id string) *Check { return registry[id] }
func IDs() []string {
	var ids []string
	for k := range registry {
		ids = append(ids, k)
	}
	sort.Strings(ids)
	return ids
}

// ---------------------------------------------------------------------------
// known findings

type Finding struct {
	Property string `json:"property"`
	ID       string `json:"id"`
	SigRegex string `json:"sig_regex"`
	What     string `json:"what"`
	// TaintProps limits what an occurrence of this finding puts beyond judgement in the rest of its case:
	// only later violations of these properties (the finding's known consequences). Empty: the whole case.
	TaintProps []string `json:"taint_props,omitempty"`
}

type KnownFile struct {
	Findings []Finding `json:"findings"`
	Fixed    []string  `json:"fixed"`
}

func LoadKnown() (*KnownFile, error) {
	b, err := os.ReadFile(filepath.Join(Root, "known_findings.json"))
	if err != nil {
		if os.IsNotExist(err) {
			return &KnownFile{}, nil
		}
		return nil, err
	}
	k := &KnownFile{}
	if err := json.Unmarshal(b, k); err != nil {
		return nil, err
	}
	return k, nil
}

func (k *KnownFile) Match(v Violation) *Finding {
	for i := range k.Findings {
		f := &k.Findings[i]
		if f.Property != v.Prop {
			continue
		}
		if ok, _ := regexp.MatchString(f.SigRegex, v.Sig); ok {
			return f
		}
	}
	return nil
}

// ---------------------------------------------------------------------------
// worker side

// WorkerMain runs inside a child process.
func WorkerMain(args []string) int {
	// args: <prop> <tier> <seed> <from> <to> <outfile> [phase]
	if len(args) < 6 {
		fmt.Fprintln(os.Stderr, "usage: worker prop tier seed from to out [phase]")
		return 2
	}
	c := Lookup(args[0])
	if c == nil {
		fmt.Fprintln(os.Stderr, "unknown property", args[0])
		return 2
	}
	seed, _ := strconv.ParseInt(args[2], 10, 64)
	from, _ := strconv.Atoi(args[3])
	to, _ := strconv.Atoi(args[4])
	env := &Env{Prop: c.ID, Tier: args[1], Seed: seed, From: from, To: to, Race: RaceEnabled}
	res := NewResult(c.ID)
	run := c.Run
	if len(args) > 6 && args[6] != "" {
		run = nil
		for _, p := range c.Phases {
			if p.Name == args[6] {
				run = p.Run
			}
		}
		if run == nil {
			fmt.Fprintln(os.Stderr, "unknown phase", args[6])
			return 2
		}
	}
	abortWorker = func() {
		if b, err := json.Marshal(res); err == nil {
			_ = os.WriteFile(args[5], b, 0o644)
		}
		os.Exit(0)
	}
	run(env, res)
	b, err := json.Marshal(res)
	if err != nil {
		fmt.Fprintln(os.Stderr, "marshal:", err)
		return 2
	}
	if err := os.WriteFile(args[5], b, 0o644); err != nil {
		fmt.Fprintln(os.Stderr, "write:", err)
		return 2
	}
	return 0
}

var abortWorker func()

// AbortWorker ends the child process after writing what it has observed so far. It is for the one
// situation a worker cannot continue from: code under test that does not return (see Bounded).
func AbortWorker(res *Result, remaining int) {
	res.Count("cases_not_run_after_a_call_that_never_returned", remaining)
	if abortWorker != nil {
		abortWorker()
	}
	os.Exit(3)
}

func cpuTime() time.Duration {
	var ru syscall.Rusage
	if err := syscall.Getrusage(syscall.RUSAGE_SELF, &ru); err != nil {
		return 0
	}
	return time.Duration(ru.Utime.Nano() + ru.Stime.Nano())
}

// Bounded runs f on its own goroutine and reports whether it returned. The bound is CPU time burnt by
// this (single-case-at-a-time) process, not wall-clock time, so that a loaded machine cannot turn a slow
// call into a verdict: a call that normally takes microseconds and has consumed `budget` of CPU is
// spinning. A call that blocks without spinning is left to the wall-clock watchdog (inconclusive).
// A panic in f is re-raised on the caller's goroutine.
func Bounded(budget time.Duration, f func()) bool {
	done := make(chan interface{}, 1)
	start := cpuTime()
	go func() {
		defer func() { done <- recover() }()
		f()
	}()
	tick := time.NewTicker(100 * time.Millisecond)
	defer tick.Stop()
	for {
		select {
		case p := <-done:
			if p != nil {
				panic(p)
			}
			return true
		case <-tick.C:
			if cpuTime()-start > budget {
				return false
			}
		}
	}
}

// ---------------------------------------------------------------------------
// parent side

func envInt(name string, def int64) int64 {
	if v := os.Getenv(name); v != "" {
		if n, err := strconv.ParseInt(v, 10, 64); err == nil {
			return n
		}
	}
	return def
}

type childSpec struct {
	from, to int
	phase    string
	race     bool
}

// CheckMain is `fverif check <prop> <tier>`.
func CheckMain(args []string) int {
	if len(args) < 2 {
		fmt.Fprintln(os.Stderr, "usage: check <prop> <quick|thorough> [case]")
		return 2
	}
	c := Lookup(args[0])
	if c == nil {
		fmt.Fprintln(os.Stderr, "unknown property", args[0])
		return 2
	}
	tier := args[1]
	seed := envInt("VERIF_SEED", 1)
	start := time.Now()
	n := c.Cases(tier)
	procs := runtime.NumCPU()
	if v := envInt("VERIF_PROCS", 0); v > 0 {
		procs = int(v)
	}
	shards := procs
	if c.Shards != nil {
		if s := c.Shards(tier); s > 0 {
			shards = s
		}
	}
	if shards > n {
		shards = n
	}
	var specs []childSpec
	if len(args) > 2 { // single case (replay)
		i, _ := strconv.Atoi(args[2])
		specs = append(specs, childSpec{from: i, to: i + 1})
		n = 1
	} else {
		// many small chunks handed to a pool keep all cores busy although case cost varies
		chunks := shards * 4
		if chunks > n {
			chunks = n
		}
		for s := 0; s < chunks; s++ {
			a, b := s*n/chunks, (s+1)*n/chunks
			if b > a {
				specs = append(specs, childSpec{from: a, to: b})
			}
		}
		for _, p := range c.Phases {
			if p.Tier != "" && p.Tier != tier {
				continue
			}
			cnt := 1
			if p.Count != nil {
				cnt = p.Count(tier)
			}
			for i := 0; i < cnt; i++ {
				specs = append(specs, childSpec{from: i, to: i + 1, phase: p.Name, race: p.Race})
			}
		}
	}
	wd := 8 * time.Minute
	if tier == "thorough" {
		wd = 40 * time.Minute
	}
	if c.Watchdog != nil {
		wd = c.Watchdog(tier)
	}
	work := filepath.Join(Root, ".work", fmt.Sprintf("%s-%d", c.ID, os.Getpid()))
	_ = os.MkdirAll(work, 0o755)
	defer os.RemoveAll(work)

	total := NewResult(c.ID)
	var mu sync.Mutex
	broken := []string{}
	sem := make(chan struct{}, procs)
	var wg sync.WaitGroup
	for i, sp := range specs {
		wg.Add(1)
		sem <- struct{}{}
		go func(i int, sp childSpec) {
			defer wg.Done()
			defer func() { <-sem }()
			out := filepath.Join(work, fmt.Sprintf("shard-%d.json", i))
			logf := filepath.Join(work, fmt.Sprintf("shard-%d.log", i))
			bin := filepath.Join(Root, "bin", "fverif")
			if sp.race {
				bin = filepath.Join(Root, "bin", "fverif-race")
			}
			cmd := exec.Command("timeout", "-s", "QUIT", strconv.Itoa(int(wd.Seconds())), bin, "worker", c.ID, tier,
				strconv.FormatInt(seed, 10), strconv.Itoa(sp.from), strconv.Itoa(sp.to), out, sp.phase)
			lf, _ := os.Create(logf)
			cmd.Stdout, cmd.Stderr = lf, lf
			cmd.Env = append(os.Environ(), "VERIF_WORK="+work, "VERIF_SHARD="+strconv.Itoa(i))
			if sp.race {
				cmd.Env = append(cmd.Env, "GORACE=halt_on_error=0 log_path="+filepath.Join(work, fmt.Sprintf("race-%d", i)))
			}
			err := cmd.Run()
			lf.Close()
			mu.Lock()
			defer mu.Unlock()
			b, rerr := os.ReadFile(out)
			if rerr != nil {
				tail := tailFile(logf, 30)
				code := -1
				if ee, ok := err.(*exec.ExitError); ok {
					code = ee.ExitCode()
				}
				full, _ := os.ReadFile(logf)
				if code == 124 || code == 131 || strings.Contains(tail, "SIGQUIT") {
					total.Inconclusive = append(total.Inconclusive, fmt.Sprintf("shard %d-%d %s: watchdog after %v", sp.from, sp.to, sp.phase, wd))
				} else if crash := crashInRepo(string(full)); crash != "" {
					// the code under test brought the process down (panic, fatal runtime error such as concurrent
					// map writes) with a repository frame on the stack: that is an observation, not a harness failure
					total.Violate(Violation{Prop: c.ID, Sig: "process-crash:" + crash, Msg: fmt.Sprintf("the child process running cases %d-%d %s died: %s", sp.from, sp.to, sp.phase, crash), Case: sp.from, Detail: map[string]interface{}{"log": tail}})
				} else {
					broken = append(broken, fmt.Sprintf("shard %d-%d %s exited %v without result:\n%s", sp.from, sp.to, sp.phase, err, tail))
				}
				return
			}
			r := NewResult(c.ID)
			if jerr := json.Unmarshal(b, r); jerr != nil {
				broken = append(broken, "bad shard json: "+jerr.Error())
				return
			}
			if r.Distinct == nil {
				r.Distinct = map[string]bool{}
			}
			if r.Counters == nil {
				r.Counters = map[string]int{}
			}
			total.Merge(r)
		}(i, sp)
	}
	wg.Wait()

	// race detector reports of the -race children
	raceTotal, raceMine, raceOther, raceHarness := scanRaceLogs(work, c.RacePkgs)
	for sig, blk := range raceMine {
		total.Violate(Violation{Prop: c.ID, Sig: "data-race:" + sig, Msg: "race detector report in " + sig, Case: -1, Detail: map[string]interface{}{"report": blk}})
	}
	for sig := range raceHarness {
		broken = append(broken, "race report with harness frames only (harness bug): "+sig)
	}
	if raceTotal > 0 || len(c.RacePkgs) > 0 {
		total.Counters["race_reports_total"] += raceTotal
		total.Counters["race_reports_distinct_in_anchor_packages"] += len(raceMine)
		total.Counters["race_reports_distinct_elsewhere_in_repo"] += len(raceOther)
	}
	for sig := range raceOther {
		fmt.Printf("  race report outside this property's packages (not judged here): %s\n", sig)
	}

	known, kerr := LoadKnown()
	if kerr != nil {
		broken = append(broken, "known_findings.json: "+kerr.Error())
		known = &KnownFile{}
	}
	// classify violations
	sort.SliceStable(total.Violations, func(i, j int) bool { return total.Violations[i].Case < total.Violations[j].Case })
	knownHits := map[string]int{}
	var own, side []Violation
	// A case is tainted from its first violation that matches a known finding on: a history that
	// already went wrong in a recorded way proves nothing about what follows in the same case.
	// Violations before that point, and every case without a match, are judged in full.
	taintedCase := map[int]map[string]bool{} // case -> properties put beyond judgement ("*": all)
	tainted := 0
	for _, v := range total.Violations {
		if f := known.Match(v); f != nil {
			knownHits[f.ID]++
			if taintedCase[v.Case] == nil {
				taintedCase[v.Case] = map[string]bool{}
			}
			if len(f.TaintProps) == 0 {
				taintedCase[v.Case]["*"] = true
			}
			for _, p := range f.TaintProps {
				taintedCase[v.Case][p] = true
			}
			continue
		}
		if t := taintedCase[v.Case]; t["*"] || t[origProp(v)] {
			tainted++
			continue
		}
		if v.Prop == c.ID {
			own = append(own, v)
		} else {
			side = append(side, v)
		}
	}
	total.Counters["violations_after_known_finding_in_same_case_not_judged"] += tainted
	// every listed finding of this property is named on every run (it is a recorded defect of the tree,
	// not an alarm); the count says how often this run's executions ran into it
	for _, f := range known.Findings {
		if f.Property == c.ID && len(args) <= 2 {
			fmt.Printf("KNOWN-FINDING: property=%s %s (%d occurrences this run)\n", f.Property, f.What, knownHits[f.ID])
		}
	}
	_ = os.MkdirAll(filepath.Join(Root, "replays"), 0o755)
	printed := map[string]bool{}
	for _, v := range own {
		path := filepath.Join(Root, "replays", fmt.Sprintf("%s-%d-%d.json", v.Prop, seed, v.Case))
		if !printed[path] {
			rb, _ := json.MarshalIndent(map[string]interface{}{"property": v.Prop, "tier": tier, "seed": seed, "case": v.Case,
				"replay_cmd": fmt.Sprintf("VERIF_SEED=%d ./run.sh replay %s", seed, path), "violations": filterCase(own, v.Case)}, "", " ")
			_ = os.WriteFile(path, rb, 0o644)
			if len(printed) < 20 {
				fmt.Printf("VIOLATION property=%s replay=%s\n", v.Prop, path)
				fmt.Printf("  %s: %s\n", v.Sig, v.Msg)
			}
			printed[path] = true
		}
	}
	sideCount := map[string]int{}
	for i, v := range side {
		sideCount[v.Prop]++
		if i < 8 {
			fmt.Printf("  side observation (not judged by this check) %s case=%d %s: %s\n", v.Prop, v.Case, v.Sig, v.Msg)
		}
	}
	wall := time.Since(start).Seconds()
	cov := map[string]interface{}{
		"evaluations":         total.Evaluations,
		"distinct_nontrivial": len(total.Distinct),
		"rule":                c.Rule,
		"samples":             total.Samples,
		"cases":               total.Cases,
		"counters":            total.Counters,
		"inconclusive":        total.Inconclusive,
		"known_finding_hits":  knownHits,
		"side_observations":   sideCount,
		"child_processes":     len(specs),
	}
	if total.Notes != nil {
		cov["notes"] = total.Notes
	}
	if cov["samples"] == nil {
		cov["samples"] = []interface{}{}
	}
	ev := map[string]interface{}{
		"property_id": c.ID, "tier": tier, "seed": seed, "level": c.Level, "coverage": cov,
		"assumptions": c.Assumptions, "wall_s": wall, "violations": len(own),
	}
	if len(args) <= 2 { // replays of one case do not overwrite the evidence
		eb, _ := json.MarshalIndent(ev, "", " ")
		_ = os.MkdirAll(filepath.Join(Root, "evidence"), 0o755)
		_ = os.WriteFile(filepath.Join(Root, "evidence", c.ID+".json"), eb, 0o644)
	}
	keys := make([]string, 0, len(total.Counters))
	for k := range total.Counters {
		keys = append(keys, k)
	}
	sort.Strings(keys)
	var sb strings.Builder
	for _, k := range keys {
		fmt.Fprintf(&sb, " %s=%d", k, total.Counters[k])
	}
	fmt.Printf("%s %s seed=%d cases=%d evaluations=%d distinct_nontrivial=%d violations=%d known=%d side=%v inconclusive=%d wall=%.1fs\n  observed:%s\n",
		c.ID, tier, seed, total.Cases, total.Evaluations, len(total.Distinct), len(own), len(knownHits), sideCount, len(total.Inconclusive), wall, sb.String())
	for _, s := range total.Inconclusive {
		fmt.Println("  INCONCLUSIVE:", s)
	}
	if len(own) > 0 {
		return 1
	}
	if len(broken) > 0 {
		for _, b := range broken {
			fmt.Println("BROKEN:", b)
		}
		return 2
	}
	min := c.MinDistinct
	if min < 2 {
		min = 2
	}
	if len(args) <= 2 && (total.Evaluations == 0 || len(total.Distinct) < min) {
		fmt.Printf("BROKEN: observed too little (evaluations=%d distinct=%d, need >= %d)\n", total.Evaluations, len(total.Distinct), min)
		return 2
	}
	return 0
}

var frameRe = regexp.MustCompile(`^\s+(/repo/)(pkg/[^\s:]+\.go)`)
var funcRe = regexp.MustCompile(`^\s{2}([A-Za-z0-9_./()*\-\[\]]+)\(`)

// scanRaceLogs reads the GORACE log files of a run: number of reports, and the distinct
// reports (by the set of repository files involved, line numbers stripped) that touch the
// property's packages, other repository packages, or only the harness.
func scanRaceLogs(dir string, pkgs []string) (total int, mine, other, harness map[string]string) {
	mine, other, harness = map[string]string{}, map[string]string{}, map[string]string{}
	files, _ := filepath.Glob(filepath.Join(dir, "race-*"))
	for _, f := range files {
		b, err := os.ReadFile(f)
		if err != nil {
			continue
		}
		for _, blk := range strings.Split(string(b), "==================") {
			if !strings.Contains(blk, "WARNING: DATA RACE") {
				continue
			}
			total++
			set := map[string]bool{}
			for _, ln := range strings.Split(blk, "\n") {
				if m := frameRe.FindStringSubmatch(ln); m != nil && !strings.Contains(m[2], "/generated/") {
					set[m[2]] = true
				}
			}
			var fl []string
			inPkg := false
			for x := range set {
				fl = append(fl, x)
				for _, p := range pkgs {
					if strings.HasPrefix(x, p+"/") {
						inPkg = true
					}
				}
			}
			sort.Strings(fl)
			sig := strings.Join(fl, "+")
			if len(blk) > 6000 {
				blk = blk[:6000]
			}
			switch {
			case inPkg:
				mine[sig] = blk
			case len(fl) > 0:
				other[sig] = blk
			default:
				harness["(no repository frame) "+firstLines(blk, 12)] = blk
			}
		}
	}
	return
}

func firstLines(s string, n int) string {
	l := strings.Split(strings.TrimSpace(s), "\n")
	if len(l) > n {
		l = l[:n]
	}
	return strings.Join(l, " / ")
}

// crashInRepo returns the first line of a panic / fatal error if a goroutine stack of the dump has a frame in /repo.
// repoDir is the directory the harness module's go.mod maps furiko to (/repo, unless a development
// copy of /verif points at a scratch worktree).
func repoDir() string {
	b, err := os.ReadFile(filepath.Join(Root, "go.mod"))
	if err == nil {
		for _, l := range strings.Split(string(b), "\n") {
			if i := strings.Index(l, "github.com/furiko-io/furiko =>"); i >= 0 {
				return strings.TrimSpace(l[i+len("github.com/furiko-io/furiko =>"):])
			}
		}
	}
	return "/repo"
}

func crashInRepo(log string) string {
	i := strings.Index(log, "fatal error:")
	if j := strings.Index(log, "panic:"); j >= 0 && (i < 0 || j < i) {
		i = j
	}
	if i < 0 || !strings.Contains(log[i:], repoDir()+"/pkg/") {
		return ""
	}
	line := log[i:]
	if k := strings.Index(line, "\n"); k >= 0 {
		line = line[:k]
	}
	if len(line) > 160 {
		line = line[:160]
	}
	return line
}

// origProp is the property whose monitor raised v: fault-enumeration checks re-label the violations of the
// other monitors as "safety:<prop>:<sig>" under their own property.
func origProp(v Violation) string {
	if strings.HasPrefix(v.Sig, "safety:") {
		if parts := strings.SplitN(v.Sig, ":", 3); len(parts) == 3 {
			return parts[1]
		}
	}
	return v.Prop
}

func filterCase(vs []Violation, c int) []Violation {
	var out []Violation
	for _, v := range vs {
		if v.Case == c {
			out = append(out, v)
		}
	}
	return out
}

func tailFile(path string, n int) string {
	b, err := os.ReadFile(path)
	if err != nil {
		return ""
	}
	lines := strings.Split(string(b), "\n")
	if len(lines) > n {
		// keep the head of a panic too
		head := lines[:n/2]
		lines = append(append([]string{}, head...), append([]string{"..."}, lines[len(lines)-n/2:]...)...)
	}
	return strings.Join(lines, "\n")
}

// ReplayMain is `fverif replay <file>`.
func ReplayMain(args []string) int {
	if len(args) < 1 {
		fmt.Fprintln(os.Stderr, "usage: replay <file>")
		return 2
	}
	b, err := os.ReadFile(args[0])
	if err != nil {
		fmt.Fprintln(os.Stderr, err)
		return 2
	}
	var r struct {
		Property string `json:"property"`
		Tier     string `json:"tier"`
		Seed     int64  `json:"seed"`
		Case     int    `json:"case"`
	}
	if err := json.Unmarshal(b, &r); err != nil {
		fmt.Fprintln(os.Stderr, err)
		return 2
	}
	os.Setenv("VERIF_SEED", strconv.FormatInt(r.Seed, 10))
	return CheckMain([]string{r.Property, r.Tier, strconv.Itoa(r.Case)})
}
