package sim

import (
	"context"
	"flag"
	"fmt"
	"io"
	"math/rand"
	"os"
	goruntime "runtime"
	"sort"
	"strconv"
	"strings"
	"sync"
	"time"

	"k8s.io/apimachinery/pkg/runtime"
	"k8s.io/client-go/tools/record"
	"k8s.io/klog/v2"
	fakeclock "k8s.io/utils/clock/testing"

	configv1alpha1 "github.com/furiko-io/furiko/apis/config/v1alpha1"
	execution "github.com/furiko-io/furiko/apis/execution/v1alpha1"
	"github.com/furiko-io/furiko/pkg/execution/controllers/croncontroller"
	"github.com/furiko-io/furiko/pkg/execution/controllers/jobconfigcontroller"
	"github.com/furiko-io/furiko/pkg/execution/controllers/jobcontroller"
	"github.com/furiko-io/furiko/pkg/execution/controllers/jobqueuecontroller"
	"github.com/furiko-io/furiko/pkg/execution/mutation"
	"github.com/furiko-io/furiko/pkg/execution/stores/activejobstore"
	"github.com/furiko-io/furiko/pkg/execution/validation"
	"github.com/furiko-io/furiko/pkg/runtime/controllercontext/mock"
	"github.com/furiko-io/furiko/pkg/runtime/reconciler"
	"github.com/furiko-io/furiko/pkg/utils/ktime"
)

// Epoch is the virtual start of every simulation. It lies far in the wall-clock
// future on purpose: see DetQueue.AddAfter.
var Epoch = time.Date(2040, 1, 1, 0, 0, 0, 0, time.UTC)

var silence sync.Once

// SilenceLogs turns klog off completely (the controllers log every step; errors would go to stderr by default).
func SilenceLogs() {
	fs := flag.NewFlagSet("klog", flag.ContinueOnError)
	klog.InitFlags(fs)
	_ = fs.Set("logtostderr", "false")
	_ = fs.Set("alsologtostderr", "false")
	_ = fs.Set("stderrthreshold", "FATAL")
	klog.LogToStderr(false)
	klog.SetOutput(io.Discard)
}

// Options configure one simulation.
type Options struct {
	Seed             int64
	Mode             string // "seq" (friendly, causal, run-to-completion) | "rand" | "lag"
	MaxInFlight      int    // concurrent reconciles (rand/lag)
	Split            bool   // deliver to cache and notify listeners as separate steps
	Cron             bool   // run the cron controller (worker ticks + reconciler)
	CronStep         time.Duration
	Horizon          time.Duration
	StepBudget       int
	Resync           time.Duration // 0: no periodic resync (strict liveness configuration)
	JobCfg           *configv1alpha1.JobExecutionConfig
	CronCfg          *configv1alpha1.CronExecutionConfig
	JCCfg            *configv1alpha1.JobConfigExecutionConfig
	Faults           FaultPlan
	Kubelet          KubeletOptions
	StartOffset      time.Duration // virtual time at boot relative to Epoch
	InvalidPodFaults bool          // the fault plan may answer Pod creates with 422 Invalid (a legitimate source of admission errors)
	StoreYield       bool          // make the active-job store's compare-and-add a scheduling point
	DeepLag          bool          // in lag mode the starved cache falls behind by many syncs, not just a few steps
	Stall            time.Duration // lag mode: the starved caches' watches stall for windows of up to this long (virtual time goes on, the cache stays as it was); 0: never
	Relist           bool          // a cache that is two or more events behind may lose its watch and relist (tombstones, skipped versions)
	LagKinds         []Kind        // in lag mode: starve exactly these caches (default: one or two chosen at random)
	TraceCap         int
}

// FaultPlan decides the fault of each gated controller call.
type FaultPlan interface {
	Decide(w *World, c *Call, index int) FaultKind
}

type ctl struct {
	Name string
	Q    *DetQueue
	R    *reconciler.Controller
}

// Incarnation is one controller-manager process.
type Incarnation struct {
	N      int
	Actor  string
	Ctx    *SimContext
	Store  *activejobstore.Store
	Ctls   []*ctl
	Cron   *croncontroller.CronWorker
	BootAt time.Time
	Dead   bool
}

type viewEntry struct {
	Obj   runtime.Object
	Found bool
}

// Task is one in-flight reconcile.
type Task struct {
	ID     int
	Inc    *Incarnation
	Ctl    *ctl
	Item   interface{}
	View   map[string]viewEntry // kind/ns/name -> first object read from the cache
	Call   *Call                // the call it is parked at
	resume chan struct{}
	Calls  int
}

type taskEvt struct {
	t       *Task
	done    bool
	crashed bool
}

// World is one simulation.
type World struct {
	Opt     Options
	Clk     *fakeclock.FakeClock
	API     *API
	Adm     *Admission
	Cfg     *mock.Configs
	Inc     *Incarnation
	Incs    []*Incarnation
	User    *Clients
	Kubelet *Clients
	GC      *Clients
	Rnd     *rand.Rand

	events   chan taskEvt
	parked   map[int]*Task
	current  *Task
	nextTask int
	Steps    int
	Trace    []string
	lastTick time.Time
	nextSync time.Time
	ops      []UserOp
	opsDone  int
	kube     *kubelet
	ctrlCall int

	Mon *Monitors

	// statistics
	Stat map[string]int
	// weights for lag mode
	lagWeight map[Kind]int
	// watch stalls (lag mode with Options.Stall): windows of virtual time in which a kind's events are not delivered
	stalls map[Kind][][2]time.Time

	traceMu      sync.Mutex
	Stuck        bool // step budget exhausted
	Deadlocked   bool // a reconcile blocked for ever: the case was abandoned
	HorizonHit   bool
	OnQuiescent  []func()
	crashPending bool
}

// UserOp is one scripted external action at a virtual time.
type UserOp struct {
	At   time.Duration
	Name string
	Do   func(w *World)
}

func (w *World) Now() time.Time { return w.Clk.Now() }

// T formats the virtual time relative to the epoch.
func (w *World) T() string { return fmt.Sprintf("T+%v", w.Clk.Now().Sub(Epoch)) }

func NewWorld(opt Options) *World {
	silence.Do(SilenceLogs)
	if opt.Mode == "" {
		opt.Mode = "seq"
	}
	if opt.MaxInFlight <= 0 {
		opt.MaxInFlight = 1
	}
	if opt.Horizon == 0 {
		opt.Horizon = 3 * time.Hour
	}
	if opt.StepBudget == 0 {
		opt.StepBudget = 200000
	}
	if opt.CronStep == 0 {
		opt.CronStep = 5 * time.Second
	}
	if opt.TraceCap == 0 {
		opt.TraceCap = 400
		if v, err := strconv.Atoi(os.Getenv("VERIF_TRACECAP")); err == nil && v > 0 {
			opt.TraceCap = v
		}
	}
	w := &World{Opt: opt, Rnd: rand.New(rand.NewSource(opt.Seed)), events: make(chan taskEvt), parked: map[int]*Task{}, Stat: map[string]int{}}
	w.Clk = fakeclock.NewFakeClock(Epoch.Add(opt.StartOffset))
	ktime.Clock = w.Clk
	croncontroller.Clock = w.Clk
	mutation.Clock = w.Clk
	validation.Clock = w.Clk
	w.API = NewAPI(w.Clk.Now)
	w.Cfg = mock.NewConfigs()
	cfgs := map[configv1alpha1.ConfigName]runtime.Object{}
	if opt.JobCfg != nil {
		cfgs[configv1alpha1.JobExecutionConfigName] = opt.JobCfg
	}
	if opt.CronCfg != nil {
		cfgs[configv1alpha1.CronExecutionConfigName] = opt.CronCfg
	}
	if opt.JCCfg != nil {
		cfgs[configv1alpha1.JobConfigExecutionConfigName] = opt.JCCfg
	}
	w.Cfg.SetConfigs(cfgs)
	adm, err := NewAdmission(w.API, w.Cfg)
	if err != nil {
		panic(err)
	}
	w.Adm = adm
	w.API.Admit = adm.Admit
	w.API.OnCrash = func(actor string) { w.crashPending = true }
	w.User = NewClients(w.API, "user")
	w.Kubelet = NewClients(w.API, "kubelet")
	w.GC = NewClients(w.API, "gc")
	w.kube = newKubelet(w, opt.Kubelet)
	w.lagWeight = map[Kind]int{KJob: 10, KJobConfig: 10, KPod: 10}
	if opt.DeepLag {
		w.lagWeight = map[Kind]int{KJob: 40, KJobConfig: 40, KPod: 40}
	}
	if opt.Mode == "lag" && len(opt.LagKinds) > 0 {
		for _, k := range opt.LagKinds {
			w.lagWeight[k] = 1
		}
	} else if opt.Mode == "lag" {
		// one or two caches lag heavily in this case
		kinds := []Kind{KJob, KJobConfig, KPod}
		w.lagWeight[kinds[w.Rnd.Intn(3)]] = 1
		if w.Rnd.Intn(3) == 0 {
			w.lagWeight[kinds[w.Rnd.Intn(3)]] = 1
		}
	}
	if opt.Mode == "lag" && opt.Stall > 0 {
		w.stalls = map[Kind][][2]time.Time{}
		for _, k := range []Kind{KJob, KJobConfig, KPod} {
			if w.lagWeight[k] != 1 {
				continue
			}
			t := w.Clk.Now().Add(time.Duration(5+w.Rnd.Intn(40)) * time.Second)
			for n := 0; n < 6; n++ {
				d := time.Duration(3+w.Rnd.Intn(int(opt.Stall/time.Second))) * time.Second
				w.stalls[k] = append(w.stalls[k], [2]time.Time{t, t.Add(d)})
				t = t.Add(d + time.Duration(10+w.Rnd.Intn(60))*time.Second)
			}
		}
	}
	w.Mon = newMonitors(w)
	w.API.OnCommit = append(w.API.OnCommit, w.Mon.onCommit)
	w.API.OnCall = append(w.API.OnCall, w.Mon.onCall)
	w.Boot()
	return w
}

// yieldStore wraps the production ActiveJobStore for the reconcilers: its compare-and-add is a
// scheduling point, so that informer deliveries to the store (a Job finishing, being deleted)
// can be interleaved between a reconcile's snapshot of the counter and its CAS - the window a
// preempted goroutine has in production. It delegates everything to the real store.
type yieldStore struct {
	w    *World
	real *activejobstore.Store
}

func (y *yieldStore) Name() string { return y.real.Name() }
func (y *yieldStore) CountActiveJobsForConfig(rjc *execution.JobConfig) int64 {
	return y.real.CountActiveJobsForConfig(rjc)
}
func (y *yieldStore) Delete(rjc *execution.JobConfig) { y.real.Delete(rjc) }
func (y *yieldStore) CheckAndAdd(rjc *execution.JobConfig, old int64) bool {
	y.w.yield(&Call{Actor: "store", Verb: "check-and-add", Kind: "store", NS: rjc.Namespace, Name: rjc.Name})
	return y.real.CheckAndAdd(rjc, old)
}

// yield parks the running reconcile at an in-memory scheduling point (no fault, not a fault-enumeration index).
func (w *World) yield(c *Call) {
	t := w.current
	if t == nil || !w.Opt.StoreYield {
		return
	}
	c.Task = t.ID
	t.Call = c
	w.events <- taskEvt{t: t}
	<-t.resume
}

type nopRecorder struct{}

func (nopRecorder) Event(runtime.Object, string, string, string)                  {}
func (nopRecorder) Eventf(runtime.Object, string, string, string, ...interface{}) {}
func (nopRecorder) AnnotatedEventf(runtime.Object, map[string]string, string, string, string, ...interface{}) {
}

var _ record.EventRecorder = nopRecorder{}

type nopCronRecorder struct{}

func (nopCronRecorder) CreatedJob(context.Context, interface{}, interface{}) {}

// Boot builds a fresh controller-manager incarnation on the same API, the way a restarted process comes up.
func (w *World) Boot() *Incarnation {
	n := len(w.Incs) + 1
	inc := &Incarnation{N: n, Actor: fmt.Sprintf("ctrl#%d", n), BootAt: w.Clk.Now()}
	inc.Ctx = NewSimContext(w.API, inc.Actor, w.Cfg)
	inc.Ctx.CS.Gate = w.gate
	inc.Ctx.CS.OnLiveRead = func(kind Kind, ns, name string, obj runtime.Object) {
		// what a reconcile learns from the apiserver replaces what (little) its cache told it about that object
		if t := w.current; t != nil {
			w.traceMu.Lock()
			t.View[string(kind)+"/"+ns+"/"+name] = viewEntry{Obj: obj, Found: true}
			w.traceMu.Unlock()
		}
	}
	inc.Ctx.CS.ReadGate = func(kind Kind, ns, name string) error {
		if rf, ok := w.Opt.Faults.(interface {
			DecideRead(w *World, kind Kind, name string) error
		}); ok && w.current != nil {
			if err := rf.DecideRead(w, kind, name); err != nil {
				w.traceMu.Lock()
				w.trace("get %s %s/%s fails: %v (task %d)", kind, ns, name, err, w.current.ID)
				w.traceMu.Unlock()
				return err
			}
		}
		return nil
	}
	inc.Ctx.Inf.SetOnRead(w.onRead)
	for _, inf := range inc.Ctx.Inf.All() {
		inf.Split = false // the initial list is handled atomically; splitting starts afterwards
		inf.InitialSync(w.API)
	}
	_ = inc.Ctx.Start(context.Background())
	store, err := activejobstore.NewStore(inc.Ctx)
	if err != nil {
		panic(err)
	}
	ystore := &yieldStore{w: w, real: store}
	inc.Ctx.Strs.Register(ystore)
	if err := store.Recover(context.Background()); err != nil {
		panic(err)
	}
	inc.Store = store
	rec := nopRecorder{}

	jq := NewDetQueue("job", w.Clk.Now)
	jctx := jobcontroller.NewContextWithRecorder(inc.Ctx, rec)
	jctx.VerifSetQueue(jq)
	jobcontroller.NewInformerWorker(jctx)

	pq, iq := NewDetQueue("queue-perconfig", w.Clk.Now), NewDetQueue("queue-independent", w.Clk.Now)
	qctx := jobqueuecontroller.NewContextWithRecorder(inc.Ctx, rec)
	qctx.VerifSetQueues(pq, iq)
	jobqueuecontroller.NewInformerWorker(qctx)
	control := jobqueuecontroller.NewJobControl(inc.Ctx.CS.Furiko().ExecutionV1alpha1(), rec)

	cq := NewDetQueue("jobconfig", w.Clk.Now)
	cctx := jobconfigcontroller.NewContextWithRecorder(inc.Ctx, rec)
	cctx.VerifSetQueue(cq)
	jobconfigcontroller.NewInformerWorker(cctx)

	inc.Ctls = []*ctl{
		{"job", jq, reconciler.NewController(jobcontroller.NewReconciler(jctx, nil), jq)},
		{"queue-perconfig", pq, reconciler.NewController(jobqueuecontroller.NewPerConfigReconciler(qctx, nil, control), pq)},
		{"queue-independent", iq, reconciler.NewController(jobqueuecontroller.NewIndependentReconciler(qctx, nil, control), iq)},
		{"jobconfig", cq, reconciler.NewController(jobconfigcontroller.NewReconciler(cctx, nil), cq)},
	}
	if w.Opt.Cron {
		crq := NewDetQueue("cron", w.Clk.Now)
		crctx := croncontroller.NewContext(inc.Ctx)
		crctx.VerifSetQueue(crq)
		crq.OnAdd = func(item interface{}) { w.Mon.onCronRequest(inc, item) }
		inc.Cron = croncontroller.NewCronWorker(crctx, croncontroller.VerifNewEnqueueHandler(crctx))
		croncontroller.NewInformerWorker(crctx, croncontroller.NewUpdateHandler(crctx)).Init()
		if err := inc.Cron.Init(); err != nil {
			panic(err)
		}
		client := croncontroller.NewExecutionControl("cron", inc.Ctx.CS.Furiko().ExecutionV1alpha1(), cronRecorder{})
		inc.Ctls = append(inc.Ctls, &ctl{"cron", crq, reconciler.NewController(croncontroller.NewReconciler(crctx, client, cronRecorder{}, ystore, nil), crq)})
	}
	for _, inf := range inc.Ctx.Inf.All() {
		inf.Split = w.Opt.Split
	}
	w.Inc = inc
	w.Incs = append(w.Incs, inc)
	w.lastTick = time.Time{}
	if w.Opt.Resync > 0 {
		w.nextSync = w.Clk.Now().Add(w.Opt.Resync)
	}
	w.Mon.onBoot(inc)
	return inc
}

func (w *World) onRead(kind Kind, key string, obj interface{}, found bool) {
	t := w.current
	if t == nil {
		return
	}
	k := string(kind) + "/" + key
	if _, ok := t.View[k]; ok {
		return
	}
	var ro runtime.Object
	if found {
		ro, _ = obj.(runtime.Object)
	}
	t.View[k] = viewEntry{Obj: ro, Found: found}
}

// gate runs on the goroutine of the caller (a reconcile, or one of its helper goroutines).
func (w *World) gate(ctx context.Context, c *Call) {
	t := w.current
	if t == nil || t.Inc.Actor != c.Actor {
		return
	}
	c.Task = t.ID
	if c.Kind == KPod && c.Verb == "delete" {
		// issued from helper goroutines of one reconcile (ConcurrentTasks): not a
		// scheduling point, but still a fault point decided by a hash of the call
		if w.Opt.Faults != nil {
			c.Fault = w.Opt.Faults.Decide(w, c, -1)
		}
		w.traceMu.Lock()
		w.trace("call %s force=%v (task %d, helper goroutine) fault=%v", c, c.Force, t.ID, c.Fault)
		w.traceMu.Unlock()
		return
	}
	t.Call = c
	t.Calls++
	w.events <- taskEvt{t: t}
	<-t.resume
}

func (w *World) trace(f string, a ...interface{}) {
	if len(w.Trace) < w.Opt.TraceCap {
		w.Trace = append(w.Trace, w.T()+" "+fmt.Sprintf(f, a...))
	} else if len(w.Trace) == w.Opt.TraceCap {
		w.Trace = append(w.Trace, "... (trace truncated)")
	}
}

// waitTask blocks until the running task parks, finishes or its process crashes.
func (w *World) waitTask(t *Task) {
	var ev taskEvt
	for blockedFor := 0; ; {
		got := false
		select {
		case ev = <-w.events:
			got = true
		case <-time.After(5 * time.Second):
			// nothing else runs while a reconcile runs: if every goroutine executing furiko code is blocked on a
			// channel, lock or wait group (and not parked by this harness), nothing can ever wake it
			if reconcileBlocked() {
				blockedFor++
			} else {
				blockedFor = 0
			}
		}
		if got {
			break
		}
		if blockedFor >= 3 {
			w.Mon.fail("C20", "reconcile-blocked-forever", "the %s reconcile of %v (task %d) neither returned nor reached the API: all of its goroutines are blocked on channels / locks / wait groups, the worker is lost (goroutine states sampled three times over 15 s)", t.Ctl.Name, t.Item, t.ID)
			w.trace("DEADLOCK in task %d", t.ID)
			w.Deadlocked = true
			w.current = nil
			return
		}
	}
	if ev.t != t {
		panic(fmt.Sprintf("unexpected event from task %d while running %d", ev.t.ID, t.ID))
	}
	w.current = nil
	switch {
	case ev.crashed:
		delete(w.parked, t.ID)
	case ev.done:
		delete(w.parked, t.ID)
		w.Mon.onTaskDone(t)
	default:
		w.parked[t.ID] = t
	}
}

// reconcileBlocked inspects all goroutine stacks: true if at least one goroutine is executing furiko code outside
// this harness's own parking places and every such goroutine is blocked (not running, runnable, sleeping or in a syscall).
func reconcileBlocked() bool {
	buf := make([]byte, 4<<20)
	buf = buf[:goruntime.Stack(buf, true)]
	n := 0
	for _, g := range strings.Split(string(buf), "\n\ngoroutine ") {
		if !strings.Contains(g, "github.com/furiko-io/furiko/pkg/") {
			continue
		}
		if strings.Contains(g, "sim.(*World).gate") || strings.Contains(g, "sim.(*World).yield") || strings.Contains(g, "sim.(*API).begin") || strings.Contains(g, "sim.(*World).waitTask") {
			continue // parked by the harness, or the scheduler itself
		}
		i, j := strings.Index(g, "["), strings.Index(g, "]")
		if i < 0 || j < i {
			return false
		}
		state := g[i+1 : j]
		if k := strings.Index(state, ","); k >= 0 {
			state = state[:k]
		}
		switch state {
		case "chan send", "chan receive", "select", "semacquire", "sync.WaitGroup.Wait", "sync.Mutex.Lock", "sync.RWMutex.Lock", "sync.RWMutex.RLock", "sync.Cond.Wait", "chan send (nil chan)", "chan receive (nil chan)", "select (no cases)":
			n++
		default:
			return false
		}
	}
	return n > 0
}

// startTask pops one item of the controller's queue and runs the reconcile until its first API call.
func (w *World) startTask(c *ctl, item interface{}) {
	w.nextTask++
	t := &Task{ID: w.nextTask, Inc: w.Inc, Ctl: c, Item: item, View: map[string]viewEntry{}, resume: make(chan struct{})}
	if item != nil {
		c.Q.Select(item)
	}
	w.trace("work %s %v (task %d)", c.Name, item, t.ID)
	w.current = t
	w.Mon.onTaskStart(t)
	go func() {
		c.R.VerifWorkOnce(context.Background())
		w.events <- taskEvt{t: t, done: true}
	}()
	w.waitTask(t)
}

// resumeTask lets a parked reconcile perform the call it is parked at.
func (w *World) resumeTask(t *Task) {
	delete(w.parked, t.ID)
	c := t.Call
	if c.Kind == "store" {
		w.trace("store %s %s/%s (task %d)", c.Verb, c.NS, c.Name, t.ID)
		w.Stat["store_yields"]++
		w.current = t
		t.resume <- struct{}{}
		w.waitTask(t)
		return
	}
	if w.Opt.Faults != nil {
		c.Fault = w.Opt.Faults.Decide(w, c, w.ctrlCall)
	}
	w.ctrlCall++
	w.trace("call %s (task %d, #%d) fault=%v", c, t.ID, w.ctrlCall-1, c.Fault)
	w.current = t
	if c.Fault == FCrashBefore || c.Fault == FCrashAfter {
		// the goroutine will never come back: watch for the crash flag instead
		t.resume <- struct{}{}
		w.awaitCrash(t)
		return
	}
	t.resume <- struct{}{}
	w.waitTask(t)
}

func (w *World) awaitCrash(t *Task) {
	// the call takes the API lock, (applies,) marks the actor dead and parks forever
	for i := 0; ; i++ {
		var dead bool
		w.API.Locked(func() { dead = w.API.Dead[t.Inc.Actor] })
		if dead {
			break
		}
		select {
		case ev := <-w.events: // the call failed before reaching the crash point (e.g. validation error): treat as a normal return
			w.current = nil
			if ev.done {
				w.Mon.onTaskDone(t)
			} else {
				w.parked[t.ID] = t
			}
			return
		case <-time.After(time.Millisecond):
		}
		if i > 20000 {
			panic("crash fault never reached")
		}
	}
	w.current = nil
	w.Crash()
}

// Crash abandons the current incarnation (all its in-memory state, its parked
// reconciles) and boots a new one after the kubelet-independent downtime.
func (w *World) Crash() {
	old := w.Inc
	old.Dead = true
	w.API.Locked(func() { w.API.Dead[old.Actor] = true })
	for id, t := range w.parked {
		if t.Inc == old {
			delete(w.parked, id)
		}
	}
	w.crashPending = false
	w.Stat["crashes"]++
	w.trace("CRASH of %s", old.Actor)
	w.Mon.onCrash(old)
	w.Boot()
	w.trace("BOOT %s", w.Inc.Actor)
}

// ---------------------------------------------------------------------------
// scheduler

type action struct {
	kind   string
	weight int
	inf    *DetInformer
	lis    int
	ctl    *ctl
	item   interface{}
	task   *Task
	pod    string
	op     int
	do     func()
	label  string
}

// stalledUntil reports whether the watch of kind k is stalled now, and until when.
func (w *World) stalledUntil(k Kind) (time.Time, bool) {
	now := w.Clk.Now()
	for _, win := range w.stalls[k] {
		if !now.Before(win[0]) && now.Before(win[1]) {
			return win[1], true
		}
	}
	return time.Time{}, false
}

// anyBehind reports whether some cache has not been brought up to the API's state.
func (w *World) anyBehind() bool {
	for _, inf := range w.Inc.Ctx.Inf.All() {
		if inf.NextSeq(w.API) >= 0 || len(inf.PendingListeners()) > 0 {
			return true
		}
	}
	return false
}

func (w *World) enabled() []action {
	var acts []action
	inc := w.Inc
	// informer deliveries
	if w.Opt.Mode == "seq" {
		best, bi := -1, -1
		infs := inc.Ctx.Inf.All()
		for i, inf := range infs {
			if s := inf.NextSeq(w.API); s >= 0 && (best < 0 || s < best) {
				best, bi = s, i
			}
		}
		if bi >= 0 {
			acts = append(acts, action{kind: "deliver", weight: 10, inf: infs[bi]})
		}
	} else {
		for _, inf := range inc.Ctx.Inf.All() {
			if _, st := w.stalledUntil(inf.Kind); st {
				continue
			}
			if inf.NextSeq(w.API) >= 0 {
				acts = append(acts, action{kind: "deliver", weight: w.lagWeight[inf.Kind], inf: inf})
			}
		}
	}
	if w.Opt.Relist && w.Opt.Mode != "seq" {
		for _, inf := range inc.Ctx.Inf.All() {
			if _, st := w.stalledUntil(inf.Kind); st {
				continue
			}
			if inf.Behind(w.API) >= 2 {
				acts = append(acts, action{kind: "relist", weight: 1, inf: inf})
			}
		}
	}
	for _, inf := range inc.Ctx.Inf.All() {
		for _, l := range inf.PendingListeners() {
			acts = append(acts, action{kind: "notify", weight: 8, inf: inf, lis: l})
		}
	}
	// reconciles
	if len(w.parked) < w.Opt.MaxInFlight {
		for _, c := range inc.Ctls {
			c.Q.FireDue()
			for _, item := range c.Q.Ready() {
				acts = append(acts, action{kind: "work", weight: 6, ctl: c, item: item})
			}
		}
	} else {
		for _, c := range inc.Ctls {
			c.Q.FireDue()
		}
	}
	ids := make([]int, 0, len(w.parked))
	for id := range w.parked {
		ids = append(ids, id)
	}
	sort.Ints(ids)
	for _, id := range ids {
		wt := 12
		if t := w.parked[id]; t.Call != nil && t.Call.Kind == "store" {
			wt = 3 // a reconcile preempted between reading the counter and its compare-and-add stays so for a while
		}
		acts = append(acts, action{kind: "resume", weight: wt, task: w.parked[id]})
	}
	// kubelet
	for _, p := range w.kube.due() {
		acts = append(acts, action{kind: "kubelet", weight: 5, pod: p})
	}
	// user
	if w.opsDone < len(w.ops) && !w.ops[w.opsDone].atTime(w).After(w.Clk.Now()) {
		acts = append(acts, action{kind: "user", weight: 6, op: w.opsDone})
	}
	// cron tick: once per distinct clock reading
	if w.Opt.Cron && inc.Cron != nil && !w.lastTick.Equal(w.Clk.Now()) {
		acts = append(acts, action{kind: "tick", weight: 6})
	}
	if w.Opt.Resync > 0 && !w.nextSync.After(w.Clk.Now()) {
		acts = append(acts, action{kind: "resync", weight: 3})
	}
	return acts
}

func (op UserOp) atTime(w *World) time.Time { return Epoch.Add(op.At) }

// nextTimer returns the earliest future instant at which something becomes enabled.
func (w *World) nextTimer() (time.Time, bool) {
	var next time.Time
	upd := func(t time.Time, ok bool) {
		if ok && (next.IsZero() || t.Before(next)) {
			next = t
		}
	}
	for _, c := range w.Inc.Ctls {
		upd(c.Q.NextTimer())
	}
	upd(w.kube.nextTimer())
	if w.opsDone < len(w.ops) {
		upd(w.ops[w.opsDone].atTime(w), true)
	}
	if w.Opt.Resync > 0 {
		upd(w.nextSync, true)
	}
	for _, inf := range w.Inc.Ctx.Inf.All() {
		if until, st := w.stalledUntil(inf.Kind); st && inf.NextSeq(w.API) >= 0 {
			upd(until, true) // the stalled watch resumes
		}
	}
	if w.Opt.Cron {
		if t, ok := w.Mon.nextCronDue(); ok {
			upd(t, true)
		}
	}
	if next.IsZero() {
		return next, false
	}
	if w.Opt.Cron {
		// a production ticker fires every second; never jump further than CronStep
		// while something is pending so that the tick granularity stays realistic
		if lim := w.Clk.Now().Add(w.Opt.CronStep); w.Opt.CronStep > 0 && next.After(lim) && w.cronBusy() {
			next = lim
		}
	}
	return next, true
}

func (w *World) cronBusy() bool { return false }

func (w *World) perform(a action) {
	w.Stat["step_"+a.kind]++
	switch a.kind {
	case "deliver":
		seq := a.inf.NextSeq(w.API)
		w.trace("deliver %s #%d", a.inf.Kind, seq)
		a.inf.DeliverOne(w.API)
	case "relist":
		a.inf.OnTombstone = w.Mon.onTombstone
		ch, tomb := a.inf.Relist(w.API)
		w.Stat["relist_tombstones"] += tomb
		w.trace("relist %s: %d adds/updates, %d tombstones", a.inf.Kind, ch, tomb)
	case "notify":
		w.trace("notify %s listener %d", a.inf.Kind, a.lis)
		a.inf.Notify(a.lis)
	case "work":
		w.startTask(a.ctl, a.item)
	case "resume":
		w.resumeTask(a.task)
	case "kubelet":
		w.kube.step(a.pod)
	case "user":
		op := w.ops[a.op]
		w.opsDone++
		w.trace("user op %s", op.Name)
		op.Do(w)
	case "tick":
		w.lastTick = w.Clk.Now()
		w.Mon.beforeTick()
		w.Inc.Cron.Work()
		w.Mon.afterTick()
	case "resync":
		w.nextSync = w.Clk.Now().Add(w.Opt.Resync)
		for _, inf := range w.Inc.Ctx.Inf.All() {
			inf.Resync()
		}
	}
}

func (w *World) pick(acts []action) action {
	if w.Opt.Mode == "seq" {
		// fixed priority: deliveries, notifications, running reconcile, user, new reconcile, kubelet, tick
		prio := map[string]int{"deliver": 0, "notify": 1, "resume": 2, "user": 3, "tick": 4, "work": 5, "resync": 6, "kubelet": 7}
		best := -1
		var cands []action
		for _, a := range acts {
			p := prio[a.kind]
			if best < 0 || p < best {
				best = p
				cands = cands[:0]
			}
			if p == best {
				cands = append(cands, a)
			}
		}
		return cands[w.Rnd.Intn(len(cands))]
	}
	total := 0
	for _, a := range acts {
		total += a.weight
	}
	x := w.Rnd.Intn(total)
	for _, a := range acts {
		if x < a.weight {
			return a
		}
		x -= a.weight
	}
	return acts[len(acts)-1]
}

// Script installs the user's scripted operations (sorted by time).
func (w *World) Script(ops []UserOp) {
	sort.SliceStable(ops, func(i, j int) bool { return ops[i].At < ops[j].At })
	w.ops = ops
	w.opsDone = 0
}

// Run drives the world until a fixpoint (nothing enabled, no timer before the horizon), the horizon or the step budget.
func (w *World) Run() {
	for {
		if w.Deadlocked {
			return
		}
		if w.Steps >= w.Opt.StepBudget {
			w.Stuck = true
			w.trace("STEP BUDGET EXHAUSTED")
			return
		}
		acts := w.enabled()
		if len(acts) > 0 {
			w.Steps++
			w.perform(w.pick(acts))
			continue
		}
		if w.anyBehind() {
			// nothing is runnable only because a watch is stalled: the clock goes on, but this is not a
			// quiescent point (the caches are not current), so the oracles of quiescent points do not apply
			w.Stat["stalled_clock_advances"]++
		} else {
			// quiescent point
			w.Stat["quiescent_points"]++
			w.Mon.onQuiescent()
			for _, f := range w.OnQuiescent {
				f()
			}
		}
		next, ok := w.nextTimer()
		if !ok {
			return // fixpoint
		}
		if next.Sub(Epoch) > w.Opt.Horizon {
			w.HorizonHit = true
			return
		}
		if next.After(w.Clk.Now()) {
			w.Clk.SetTime(next)
			w.Stat["clock_advances"]++
		} else {
			// a timer that is due but enabled nothing: cannot happen, guard against spinning
			w.Clk.SetTime(w.Clk.Now().Add(time.Second))
		}
	}
}

// CtrlCalls returns the number of gated controller API calls made so far (the fault-point index space).
func (w *World) CtrlCalls() int { return w.ctrlCall }

// CronQueue returns the cron controller's workqueue of the current incarnation (nil without cron).
func (w *World) CronQueue() *DetQueue {
	for _, c := range w.Inc.Ctls {
		if c.Name == "cron" {
			return c.Q
		}
	}
	return nil
}

// AdvanceTo moves the virtual clock forward (used for downtime between crash and restart).
func (w *World) AdvanceTo(t time.Time) {
	if t.After(w.Clk.Now()) {
		w.Clk.SetTime(t)
	}
}
