package sim

import (
	"context"
	"encoding/json"
	"fmt"
	apiequality "k8s.io/apimachinery/pkg/api/equality"
	"sort"
	"time"

	corev1 "k8s.io/api/core/v1"
	"k8s.io/apimachinery/pkg/api/meta"
	"k8s.io/apimachinery/pkg/runtime"
	"k8s.io/client-go/informers"
	"k8s.io/client-go/kubernetes"
	"k8s.io/client-go/tools/cache"

	execution "github.com/furiko-io/furiko/apis/execution/v1alpha1"
	furiko "github.com/furiko-io/furiko/pkg/generated/clientset/versioned"
	furikoinformers "github.com/furiko-io/furiko/pkg/generated/informers/externalversions"
)

// viewIndexer wraps the informer's indexer and reports every object it hands out,
// so that the set of cached objects a reconcile actually read (its view) is known.
type viewIndexer struct {
	cache.Indexer
	kind   Kind
	onRead func(kind Kind, key string, obj interface{}, found bool)
}

func (v *viewIndexer) note(obj interface{}) {
	if v.onRead == nil || obj == nil {
		return
	}
	if k, err := cache.MetaNamespaceKeyFunc(obj); err == nil {
		v.onRead(v.kind, k, obj, true)
	}
}

func (v *viewIndexer) GetByKey(key string) (interface{}, bool, error) {
	o, ok, err := v.Indexer.GetByKey(key)
	if ok {
		v.note(o)
	} else if v.onRead != nil {
		v.onRead(v.kind, key, nil, false)
	}
	return o, ok, err
}
func (v *viewIndexer) Get(obj interface{}) (interface{}, bool, error) {
	o, ok, err := v.Indexer.Get(obj)
	if ok {
		v.note(o)
	}
	return o, ok, err
}

// sortObjs puts objects handed out by the cache into key order: the indexer returns
// them in Go map order, which would make runs irreproducible (any order is legal).
func sortObjs(l []interface{}) {
	sort.SliceStable(l, func(i, j int) bool {
		a, _ := cache.MetaNamespaceKeyFunc(l[i])
		b, _ := cache.MetaNamespaceKeyFunc(l[j])
		return a < b
	})
}

func (v *viewIndexer) List() []interface{} {
	l := v.Indexer.List()
	sortObjs(l)
	for _, o := range l {
		v.note(o)
	}
	return l
}
func (v *viewIndexer) Index(name string, obj interface{}) ([]interface{}, error) {
	l, err := v.Indexer.Index(name, obj)
	sortObjs(l)
	for _, o := range l {
		v.note(o)
	}
	return l, err
}
func (v *viewIndexer) ByIndex(name, value string) ([]interface{}, error) {
	l, err := v.Indexer.ByIndex(name, value)
	sortObjs(l)
	for _, o := range l {
		v.note(o)
	}
	return l, err
}

type notification struct {
	typ      EventType
	old, obj interface{}
}

type listener struct {
	id      int
	h       cache.ResourceEventHandler
	pending []notification
}

// DetInformer is a SharedIndexInformer whose deliveries are explicit steps.
// deliver: the next event of this kind moves from the API's log into the indexer
// and is appended to every listener's FIFO; notify: a listener handles its oldest
// pending notification. With Split=false notifications are flushed at delivery.
type DetInformer struct {
	Kind      Kind
	raw       cache.Indexer
	idx       *viewIndexer
	listeners []*listener
	cursor    int // next index in API.Log to examine
	Split     bool
	Delivered int
	pristine  map[string]runtime.Object
	// OnTombstone, if set, is told about every object a relist finds gone (with the cache's last copy of it)
	OnTombstone func(k Kind, cached interface{})
}

func NewDetInformer(k Kind) *DetInformer {
	raw := cache.NewIndexer(cache.MetaNamespaceKeyFunc, cache.Indexers{cache.NamespaceIndex: cache.MetaNamespaceIndexFunc})
	return &DetInformer{Kind: k, raw: raw, idx: &viewIndexer{Indexer: raw, kind: k}}
}

func (d *DetInformer) AddEventHandler(h cache.ResourceEventHandler) {
	l := &listener{id: len(d.listeners), h: h}
	d.listeners = append(d.listeners, l)
	// a late listener gets synthetic Adds for what is already in the cache
	for _, o := range d.sortedList() {
		l.pending = append(l.pending, notification{typ: Added, obj: o})
	}
	if !d.Split {
		d.flush(l)
	}
}
func (d *DetInformer) AddEventHandlerWithResyncPeriod(h cache.ResourceEventHandler, _ time.Duration) {
	d.AddEventHandler(h)
}
func (d *DetInformer) GetStore() cache.Store                              { return d.idx }
func (d *DetInformer) GetController() cache.Controller                    { return nil }
func (d *DetInformer) Run(stopCh <-chan struct{})                         { <-stopCh }
func (d *DetInformer) HasSynced() bool                                    { return true }
func (d *DetInformer) LastSyncResourceVersion() string                    { return "" }
func (d *DetInformer) SetWatchErrorHandler(cache.WatchErrorHandler) error { return nil }
func (d *DetInformer) AddIndexers(i cache.Indexers) error                 { return d.raw.AddIndexers(i) }
func (d *DetInformer) GetIndexer() cache.Indexer                          { return d.idx }

// put stores obj in the cache and remembers a private copy of it: whoever reads objects from an informer cache
// must treat them as read-only (client-go's contract), see Mutated.
func (d *DetInformer) put(obj interface{}) {
	_ = d.raw.Add(obj)
	if key, err := cache.MetaNamespaceKeyFunc(obj); err == nil {
		if d.pristine == nil {
			d.pristine = map[string]runtime.Object{}
		}
		d.pristine[key] = obj.(runtime.Object).DeepCopyObject()
	}
}

func (d *DetInformer) del(obj interface{}) {
	_ = d.raw.Delete(obj)
	if key, err := cache.MetaNamespaceKeyFunc(obj); err == nil {
		delete(d.pristine, key)
	}
}

// Mutated lists the cached objects that no longer equal the copy taken when they were stored (somebody wrote
// through a pointer obtained from the lister), as "key: <diff hint>", and re-bases them.
func (d *DetInformer) Mutated() []string {
	var out []string
	for _, key := range d.raw.ListKeys() {
		cur, ok, _ := d.raw.GetByKey(key)
		was := d.pristine[key]
		if !ok || was == nil {
			continue
		}
		if !apiequality.Semantic.DeepEqual(cur, was) {
			a, _ := json.Marshal(was)
			b, _ := json.Marshal(cur)
			out = append(out, fmt.Sprintf("%s: was %s now %s", key, a, b))
			d.pristine[key] = cur.(runtime.Object).DeepCopyObject()
		}
	}
	sort.Strings(out)
	return out
}

// Raw gives monitor code access to the cache without recording a view.
func (d *DetInformer) Raw() cache.Indexer { return d.raw }

// NextSeq returns the log position of the next undelivered event of this kind, or -1.
func (d *DetInformer) NextSeq(api *API) int {
	api.mu.Lock()
	defer api.mu.Unlock()
	for i := d.cursor; i < len(api.Log); i++ {
		if api.Log[i].Kind == d.Kind {
			return i
		}
	}
	return -1
}

func (d *DetInformer) flush(l *listener) {
	for len(l.pending) > 0 {
		d.notifyOne(l)
	}
}

func (d *DetInformer) notifyOne(l *listener) {
	n := l.pending[0]
	l.pending = l.pending[1:]
	switch n.typ {
	case Added:
		l.h.OnAdd(n.obj)
	case Modified:
		l.h.OnUpdate(n.old, n.obj)
	case Deleted:
		l.h.OnDelete(n.obj)
	}
}

// PendingListeners lists listeners with queued notifications.
func (d *DetInformer) PendingListeners() []int {
	var out []int
	for _, l := range d.listeners {
		if len(l.pending) > 0 {
			out = append(out, l.id)
		}
	}
	return out
}

// Cursor is the position in the API log up to which this informer's cache has been brought.
func (d *DetInformer) Cursor() int { return d.cursor }

// ListenerPending returns the number of notifications listener id has not handled yet.
func (d *DetInformer) ListenerPending(id int) int {
	if id < 0 || id >= len(d.listeners) {
		return 0
	}
	return len(d.listeners[id].pending)
}

// Notify handles the oldest pending notification of listener id.
func (d *DetInformer) Notify(id int) {
	d.notifyOne(d.listeners[id])
}

// FlushAll handles every pending notification of every listener.
func (d *DetInformer) FlushAll() {
	for _, l := range d.listeners {
		d.flush(l)
	}
}

// DeliverOne applies the next event of this kind to the cache and queues the notifications.
func (d *DetInformer) DeliverOne(api *API) bool {
	var ev *Event
	api.mu.Lock()
	for d.cursor < len(api.Log) {
		e := &api.Log[d.cursor]
		d.cursor++
		if e.Kind == d.Kind {
			ev = e
			break
		}
	}
	var obj runtime.Object
	var typ EventType
	if ev != nil {
		obj = ev.Object.DeepCopyObject()
		typ = ev.Type
	}
	api.mu.Unlock()
	if ev == nil {
		return false
	}
	d.Delivered++
	var n notification
	switch typ {
	case Added:
		d.put(obj)
		n = notification{typ: Added, obj: obj}
	case Modified:
		old, exists, _ := d.raw.Get(obj)
		d.put(obj)
		if exists {
			n = notification{typ: Modified, old: old, obj: obj}
		} else {
			n = notification{typ: Added, obj: obj}
		}
	case Deleted:
		old, exists, _ := d.raw.Get(obj)
		d.del(obj)
		if !exists {
			return true
		}
		// like client-go, handlers get the last state the cache knew
		n = notification{typ: Deleted, obj: old}
	}
	for _, l := range d.listeners {
		l.pending = append(l.pending, n)
		if !d.Split {
			d.flush(l)
		}
	}
	return true
}

// Behind counts the events of this kind the cache has not been brought up to yet.
func (d *DetInformer) Behind(api *API) int {
	api.mu.Lock()
	defer api.mu.Unlock()
	n := 0
	for i := d.cursor; i < len(api.Log); i++ {
		if api.Log[i].Kind == d.Kind {
			n++
		}
	}
	return n
}

// Relist models a watch that broke (410 Gone, API server restart) while events were outstanding: the
// reflector lists again and replaces the cache with the current state. As in client-go (DeltaFIFO.Replace),
// changed objects are delivered as updates from the cached to the current version, new ones as adds, and
// objects that disappeared meanwhile as deletes carrying a cache.DeletedFinalStateUnknown tombstone; the
// intermediate versions are never seen. Returns the number of (updates+adds, tombstones).
func (d *DetInformer) Relist(api *API) (int, int) {
	api.mu.Lock()
	objs := api.listLocked(d.Kind)
	d.cursor = len(api.Log)
	api.mu.Unlock()
	var ns []notification
	present := map[string]bool{}
	for _, o := range objs {
		key, _ := cache.MetaNamespaceKeyFunc(o)
		present[key] = true
		old, exists, _ := d.raw.GetByKey(key)
		if !exists {
			d.put(o)
			ns = append(ns, notification{typ: Added, obj: o})
			continue
		}
		om, _ := meta.Accessor(old)
		nm, _ := meta.Accessor(o)
		if om.GetResourceVersion() == nm.GetResourceVersion() {
			continue
		}
		d.put(o)
		ns = append(ns, notification{typ: Modified, old: old, obj: o})
	}
	changed := len(ns)
	for _, old := range d.sortedList() {
		key, _ := cache.MetaNamespaceKeyFunc(old)
		if present[key] {
			continue
		}
		d.del(old)
		if d.OnTombstone != nil {
			d.OnTombstone(d.Kind, old)
		}
		ns = append(ns, notification{typ: Deleted, obj: cache.DeletedFinalStateUnknown{Key: key, Obj: old}})
	}
	d.Delivered += len(ns)
	for _, n := range ns {
		for _, l := range d.listeners {
			l.pending = append(l.pending, n)
			if !d.Split {
				d.flush(l)
			}
		}
	}
	return changed, len(ns) - changed
}

// PlanRelist returns, without changing anything, the changes a Relist would report now, as synthetic events in
// the order Relist delivers them (Deleted events carry the cache's last copy, as the tombstone does).
func (d *DetInformer) PlanRelist(api *API) []*Event {
	api.mu.Lock()
	objs := api.listLocked(d.Kind)
	api.mu.Unlock()
	var out []*Event
	present := map[string]bool{}
	for _, o := range objs {
		key, _ := cache.MetaNamespaceKeyFunc(o)
		present[key] = true
		old, exists, _ := d.raw.GetByKey(key)
		if !exists {
			out = append(out, &Event{Kind: d.Kind, Type: Added, Object: o})
			continue
		}
		om, _ := meta.Accessor(old)
		nm, _ := meta.Accessor(o)
		if om.GetResourceVersion() != nm.GetResourceVersion() {
			out = append(out, &Event{Kind: d.Kind, Type: Modified, Old: old.(runtime.Object), Object: o})
		}
	}
	for _, old := range d.sortedList() {
		if key, _ := cache.MetaNamespaceKeyFunc(old); !present[key] {
			out = append(out, &Event{Kind: d.Kind, Type: Deleted, Object: old.(runtime.Object)})
		}
	}
	return out
}

// Resync re-delivers every cached object as an update (old == new), like the periodic resync of client-go.
func (d *DetInformer) Resync() {
	for _, o := range d.sortedList() {
		for _, l := range d.listeners {
			l.pending = append(l.pending, notification{typ: Modified, old: o, obj: o})
			if !d.Split {
				d.flush(l)
			}
		}
	}
}

// InitialSync loads the current API state into the cache, as the initial list of a new process does.
func (d *DetInformer) InitialSync(api *API) {
	api.mu.Lock()
	objs := api.listLocked(d.Kind)
	d.cursor = len(api.Log)
	api.mu.Unlock()
	for _, o := range objs {
		d.put(o)
		for _, l := range d.listeners {
			l.pending = append(l.pending, notification{typ: Added, obj: o})
			if !d.Split {
				d.flush(l)
			}
		}
	}
}

// CachedRV returns the resourceVersion of the cached copy of key ("" if absent).
func (d *DetInformer) CachedRV(key string) string {
	o, ok, _ := d.raw.GetByKey(key)
	if !ok {
		return ""
	}
	m, _ := meta.Accessor(o)
	return m.GetResourceVersion()
}

// Informers implements controllercontext.Informers with the deterministic informers
// plugged into the generated factories.
type Informers struct {
	k   informers.SharedInformerFactory
	f   furikoinformers.SharedInformerFactory
	Job *DetInformer
	JC  *DetInformer
	Pod *DetInformer
}

func NewInformers(kc kubernetes.Interface, fc furiko.Interface) *Informers {
	i := &Informers{
		k:   informers.NewSharedInformerFactory(kc, 0),
		f:   furikoinformers.NewSharedInformerFactory(fc, 0),
		Job: NewDetInformer(KJob), JC: NewDetInformer(KJobConfig), Pod: NewDetInformer(KPod),
	}
	i.f.InformerFor(&execution.Job{}, func(furiko.Interface, time.Duration) cache.SharedIndexInformer { return i.Job })
	i.f.InformerFor(&execution.JobConfig{}, func(furiko.Interface, time.Duration) cache.SharedIndexInformer { return i.JC })
	i.k.InformerFor(&corev1.Pod{}, func(kubernetes.Interface, time.Duration) cache.SharedIndexInformer { return i.Pod })
	return i
}

func (i *Informers) Kubernetes() informers.SharedInformerFactory   { return i.k }
func (i *Informers) Furiko() furikoinformers.SharedInformerFactory { return i.f }
func (i *Informers) All() []*DetInformer                           { return []*DetInformer{i.JC, i.Job, i.Pod} }
func (i *Informers) Start(ctx context.Context) error               { return nil }

func (i *Informers) SetOnRead(f func(kind Kind, key string, obj interface{}, found bool)) {
	for _, d := range i.All() {
		d.idx.onRead = f
	}
}

// sortedList lists the cached objects in key order (the indexer's own order is a Go map order).
func (d *DetInformer) sortedList() []interface{} {
	keys := d.raw.ListKeys()
	sort.Strings(keys)
	out := make([]interface{}, 0, len(keys))
	for _, k := range keys {
		if o, ok, _ := d.raw.GetByKey(k); ok {
			out = append(out, o)
		}
	}
	return out
}
