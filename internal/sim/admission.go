package sim

import (
	"context"
	"encoding/json"
	"fmt"

	jsonpatch "github.com/evanphx/json-patch"
	admissionv1 "k8s.io/api/admission/v1"
	kerrors "k8s.io/apimachinery/pkg/api/errors"
	metav1 "k8s.io/apimachinery/pkg/apis/meta/v1"
	"k8s.io/apimachinery/pkg/runtime"

	execution "github.com/furiko-io/furiko/apis/execution/v1alpha1"
	"github.com/furiko-io/furiko/pkg/execution/webhooks/jobconfigmutatingwebhook"
	"github.com/furiko-io/furiko/pkg/execution/webhooks/jobconfigvalidatingwebhook"
	"github.com/furiko-io/furiko/pkg/execution/webhooks/jobmutatingwebhook"
	"github.com/furiko-io/furiko/pkg/execution/webhooks/jobvalidatingwebhook"
	"github.com/furiko-io/furiko/pkg/runtime/controllercontext"
	"github.com/furiko-io/furiko/pkg/runtime/controllercontext/mock"
)

type handler interface {
	Handle(ctx context.Context, req *admissionv1.AdmissionRequest) (*admissionv1.AdmissionResponse, error)
}

// Admission runs furiko's real webhooks the way kube-apiserver does: mutating
// webhook, JSON patch applied to the raw request, then validating webhook.
type Admission struct {
	api      *API
	ctx      *SimContext
	jobMut   handler
	jobVal   handler
	jcMut    handler
	jcVal    handler
	Admitted int
	Refused  int
}

// SimContext implements controllercontext.Context on simulated parts.
type SimContext struct {
	CS   *Clients
	Inf  *Informers
	Cfg  *mock.Configs
	Strs *controllercontext.ContextStores
}

func (c *SimContext) Start(ctx context.Context) error          { return c.Cfg.Start(ctx) }
func (c *SimContext) Clientsets() controllercontext.Clientsets { return c.CS }
func (c *SimContext) Configs() controllercontext.Configs       { return c.Cfg }
func (c *SimContext) Stores() controllercontext.Stores         { return c.Strs }
func (c *SimContext) Informers() controllercontext.Informers   { return c.Inf }

func NewSimContext(api *API, actor string, cfg *mock.Configs) *SimContext {
	cs := NewClients(api, actor)
	return &SimContext{CS: cs, Inf: NewInformers(cs.Kubernetes(), cs.Furiko()), Cfg: cfg, Strs: controllercontext.NewContextStores()}
}

// NewAdmission builds the webhook chain on its own context (a separate process in production).
func NewAdmission(api *API, cfg *mock.Configs) (*Admission, error) {
	c := NewSimContext(api, "webhook", cfg)
	if err := c.Start(context.Background()); err != nil {
		return nil, err
	}
	a := &Admission{api: api, ctx: c}
	var err error
	if a.jobMut, err = jobmutatingwebhook.NewWebhook(c); err != nil {
		return nil, err
	}
	if a.jobVal, err = jobvalidatingwebhook.NewWebhook(c); err != nil {
		return nil, err
	}
	if a.jcMut, err = jobconfigmutatingwebhook.NewWebhook(c); err != nil {
		return nil, err
	}
	if a.jcVal, err = jobconfigvalidatingwebhook.NewWebhook(c); err != nil {
		return nil, err
	}
	return a, nil
}

// syncCacheLocked brings the webhook's JobConfig cache up to date. Called under the API lock.
func (a *Admission) syncCacheLocked() {
	d := a.ctx.Inf.JC
	for d.cursor < len(a.api.Log) {
		ev := &a.api.Log[d.cursor]
		d.cursor++
		if ev.Kind != KJobConfig {
			continue
		}
		obj := ev.Object.DeepCopyObject()
		switch ev.Type {
		case Added:
			_ = d.raw.Add(obj)
		case Modified:
			_ = d.raw.Update(obj)
		case Deleted:
			_ = d.raw.Delete(obj)
		}
	}
}

// Admit is installed as API.Admit; it runs under the API lock.
func (a *Admission) Admit(op string, kind Kind, old, obj runtime.Object) (runtime.Object, error) {
	a.syncCacheLocked()
	var mut, val handler
	var gvk metav1.GroupVersionKind
	var res metav1.GroupVersionResource
	switch kind {
	case KJob:
		mut, val = a.jobMut, a.jobVal
		gvk = metav1.GroupVersionKind{Group: execution.GroupVersion.Group, Version: execution.GroupVersion.Version, Kind: execution.KindJob}
		res = metav1.GroupVersionResource{Group: gvk.Group, Version: gvk.Version, Resource: "jobs"}
	case KJobConfig:
		mut, val = a.jcMut, a.jcVal
		gvk = metav1.GroupVersionKind{Group: execution.GroupVersion.Group, Version: execution.GroupVersion.Version, Kind: execution.KindJobConfig}
		res = metav1.GroupVersionResource{Group: gvk.Group, Version: gvk.Version, Resource: "jobconfigs"}
	default:
		return obj, nil
	}
	raw, err := json.Marshal(obj)
	if err != nil {
		return nil, err
	}
	req := &admissionv1.AdmissionRequest{UID: "sim", Kind: gvk, Resource: res, Operation: admissionv1.Operation(op), Object: runtime.RawExtension{Raw: raw}}
	if old != nil {
		oraw, err := json.Marshal(old)
		if err != nil {
			return nil, err
		}
		req.OldObject = runtime.RawExtension{Raw: oraw}
	}
	name := ""
	if m, ok := obj.(metav1.Object); ok {
		name = m.GetName()
		req.Name, req.Namespace = m.GetName(), m.GetNamespace()
	}
	resp, err := mut.Handle(context.Background(), req)
	if err != nil {
		return nil, kerrors.NewInternalError(fmt.Errorf("mutating webhook: %w", err))
	}
	if !resp.Allowed {
		a.Refused++
		return nil, statusErr(resp, name)
	}
	if len(resp.Patch) > 0 {
		p, err := jsonpatch.DecodePatch(resp.Patch)
		if err != nil {
			return nil, kerrors.NewInternalError(fmt.Errorf("bad patch from webhook: %w", err))
		}
		patched, err := p.Apply(raw)
		if err != nil {
			return nil, kerrors.NewInternalError(fmt.Errorf("patch from webhook does not apply: %w", err))
		}
		raw = patched
	}
	req.Object = runtime.RawExtension{Raw: raw}
	resp, err = val.Handle(context.Background(), req)
	if err != nil {
		return nil, kerrors.NewInternalError(fmt.Errorf("validating webhook: %w", err))
	}
	if !resp.Allowed {
		a.Refused++
		return nil, statusErr(resp, name)
	}
	out := newOf(kind)
	if err := json.Unmarshal(raw, out); err != nil {
		return nil, kerrors.NewInternalError(err)
	}
	a.Admitted++
	return out, nil
}

func statusErr(resp *admissionv1.AdmissionResponse, name string) error {
	if resp.Result != nil {
		return &kerrors.StatusError{ErrStatus: *resp.Result}
	}
	return kerrors.NewBadRequest("admission refused " + name)
}
