package sim

import (
	"context"
	"fmt"
	"math/rand"
	"strings"
	"time"

	corev1 "k8s.io/api/core/v1"
	metav1 "k8s.io/apimachinery/pkg/apis/meta/v1"
	"k8s.io/utils/pointer"

	execution "github.com/furiko-io/furiko/apis/execution/v1alpha1"
)

// Profile biases the generated workload towards what a property needs.
type Profile struct {
	MaxJobConfigs       int
	MinJobConfigs       int
	MaxJobs             int
	MinJobs             int
	OwnedBias           int // percent of Jobs that belong to a JobConfig (when one exists)
	Policies            []execution.ConcurrencyPolicy
	MaxConcurrency      int // upper bound for maxConcurrency (>=1)
	Parallel            int // percent of Jobs with parallelism
	MaxAttempts         int
	MaxRetryDelay       int
	KillPct             int
	DeletePct           int
	StartAfterPct       int
	PendingTimeout      []int64 // choices for taskPendingTimeoutSeconds (-1: unset)
	TTL                 []int64 // choices (-1 unset)
	ForbidForce         int     // percent of Jobs forbidding force deletion
	ForeignPct          int     // percent of Jobs for which a foreign Pod occupies a task name
	KillAfter           int     // kills come at least this many seconds after the Job's creation (default 0)
	CountOnly           bool    // parallel Jobs use withCount only (index 0 then has the task name a foreign Pod is planted on)
	ForeignOnRetry      bool    // the foreign Pod always sits on the name of the second attempt (the Job is refused half-way, with recorded tasks)
	Spread              int     // seconds over which Job creations are spread
	Namespaces          []string
	Burst               bool          // create several Jobs within the same second
	CronJCs             int           // number of JobConfigs with a cron schedule (needs Options.Cron)
	EditStartAfter      int           // percent of startAfter Jobs whose startAfter is postponed by the user later
	FutureKill          int           // percent of kills with a kill timestamp in the future
	CronStopAfter       time.Duration // the user disables every cron schedule at this time (0: never), making the workload finite
	HostileNames        bool          // JobConfig names containing dots and digits (the cron work item key is <ns>/<name>.<unix>)
	DupRequests         int           // number of injected duplicate / out-of-order schedule requests
	TemplateMeta        int           // percent of JobConfigs whose job template carries labels/annotations (incl. furiko-owned keys with stale values)
	LateJobConfigs      int           // percent of JobConfigs created later, at the very instant their first Job is created (JobConfig cache may lag behind the Job cache)
	ForeignFinalizerPct int           // percent of Jobs created with a finalizer of some other tool, deleted later, the foreign finalizer released after that
	DeleteNewest        int           // number of user operations deleting the newest scheduled Job of a JobConfig
	ClearKillPct        int           // percent of kills followed later by an update that removes spec.killTimestamp again (re-applied manifest)
	CrashAfterDeletePct int           // percent of user deletions followed 0-3 s later by a crash and restart of the controller process (at most two per case)
	EditTTLPct          int           // percent of Jobs whose spec.ttlSecondsAfterFinished the user changes later (raised to an hour, or lowered to 0)
	ForceRemovePct      int           // percent of Jobs whose finalizers are stripped by the user before deleting them (the object disappears while active)
}

// Workload is a generated case.
type Workload struct {
	Desc []string
	Ops  []UserOp
}

func PodTemplate() execution.TaskTemplate {
	return execution.TaskTemplate{Pod: &execution.PodTemplateSpec{Spec: corev1.PodSpec{
		RestartPolicy: corev1.RestartPolicyNever,
		Containers:    []corev1.Container{{Name: "c", Image: "img", Args: []string{"${task.index_num}"}}},
	}}}
}

func pick64(r *rand.Rand, l []int64) int64 { return l[r.Intn(len(l))] }

// Gen generates JobConfigs, Jobs and user operations. All user writes go through the real webhooks.
func Gen(r *rand.Rand, p Profile) *Workload {
	wl := &Workload{}
	crashOps := 0
	if len(p.Namespaces) == 0 {
		p.Namespaces = []string{"default"}
	}
	if len(p.Policies) == 0 {
		p.Policies = []execution.ConcurrencyPolicy{execution.ConcurrencyPolicyForbid, execution.ConcurrencyPolicyEnqueue, execution.ConcurrencyPolicyAllow}
	}
	if p.MaxConcurrency < 1 {
		p.MaxConcurrency = 1
	}
	if p.Spread <= 0 {
		p.Spread = 40
	}
	if p.MaxAttempts < 1 {
		p.MaxAttempts = 3
	}
	if len(p.PendingTimeout) == 0 {
		p.PendingTimeout = []int64{-1, 0, 5, 20}
	}
	if len(p.TTL) == 0 {
		p.TTL = []int64{20, 60, 200}
	}
	njc := p.MinJobConfigs
	if p.MaxJobConfigs > p.MinJobConfigs {
		njc += r.Intn(p.MaxJobConfigs - p.MinJobConfigs + 1)
	}
	type jcInfo struct {
		ns, name string
		pol      execution.ConcurrencyPolicy
		at       time.Duration
	}
	var jcs []jcInfo
	for i := 0; i < njc; i++ {
		pol := p.Policies[r.Intn(len(p.Policies))]
		ns := p.Namespaces[r.Intn(len(p.Namespaces))]
		name := fmt.Sprintf("jc%d", i)
		if p.HostileNames {
			name = []string{"jc.1", "a.b.2208988800", "x-1.2.3", "n7", "cfg.0"}[r.Intn(5)] + fmt.Sprintf("%d", i)
		}
		if len(p.Namespaces) > 1 && r.Intn(2) == 0 {
			name = "shared" // same name in several namespaces
			dup := false
			for _, x := range jcs {
				if x.ns == ns && x.name == name {
					dup = true
				}
			}
			if dup {
				name = fmt.Sprintf("jc%d", i)
			}
		}
		jc := &execution.JobConfig{ObjectMeta: metav1.ObjectMeta{Name: name, Namespace: ns},
			Spec: execution.JobConfigSpec{Concurrency: execution.ConcurrencySpec{Policy: pol},
				Template: execution.JobTemplateSpec{Spec: execution.JobTemplate{TaskTemplate: PodTemplate()}}}}
		if pol != execution.ConcurrencyPolicyAllow && p.MaxConcurrency > 1 && r.Intn(2) == 0 {
			jc.Spec.Concurrency.MaxConcurrency = pointer.Int64(int64(1 + r.Intn(p.MaxConcurrency)))
		}
		tmpl := &jc.Spec.Template.Spec
		genTemplate(r, p, tmpl)
		if r.Intn(100) < p.TemplateMeta {
			jc.Spec.Template.Labels = map[string]string{"team": "a"}
			jc.Spec.Template.Annotations = map[string]string{"note": "from-template"}
			switch r.Intn(3) {
			case 0: // template metadata copy-pasted from an earlier Job
				jc.Spec.Template.Annotations[AnnScheduleTime] = "1600000000"
			case 1:
				jc.Spec.Template.Labels[LabelJCUID] = "stale-uid"
			}
		}
		createAt := time.Duration(0)
		if r.Intn(100) < p.LateJobConfigs {
			createAt = time.Duration(1+r.Intn(p.Spread)) * time.Second
		}
		if i < p.CronJCs {
			jc.Spec.Schedule = &execution.ScheduleSpec{Cron: &execution.CronSchedule{Expression: []string{"0/10 * * * * * *", "0/15 * * * * * *", "0/20 * * * * * *", "5/30 * * * * * *"}[r.Intn(4)]}}
		}
		if i < p.CronJCs && p.CronStopAfter > 0 {
			ns2, name2 := ns, name
			wl.Ops = append(wl.Ops, UserOp{At: p.CronStopAfter, Name: "disable schedule of " + ns + "/" + name, Do: func(w *World) {
				jcc := w.User.Furiko().ExecutionV1alpha1().JobConfigs(ns2)
				if cur, err := jcc.Get(context.Background(), name2, metav1.GetOptions{}); err == nil && cur.Spec.Schedule != nil {
					cur.Spec.Schedule.Disabled = true
					if _, err := jcc.Update(context.Background(), cur, metav1.UpdateOptions{}); err != nil {
						w.Mon.Notes = append(w.Mon.Notes, "disable refused: "+err.Error())
					}
				}
			}})
		}
		jcs = append(jcs, jcInfo{ns, name, pol, createAt})
		mc := int64(1)
		if jc.Spec.Concurrency.MaxConcurrency != nil {
			mc = *jc.Spec.Concurrency.MaxConcurrency
		}
		wl.Desc = append(wl.Desc, fmt.Sprintf("%s/%s:%s/%d", ns, name, pol, mc))
		obj := jc
		wl.Ops = append(wl.Ops, UserOp{At: createAt, Name: "create jobconfig " + ns + "/" + name, Do: func(w *World) {
			if _, err := w.User.Furiko().ExecutionV1alpha1().JobConfigs(obj.Namespace).Create(context.Background(), obj, metav1.CreateOptions{}); err != nil {
				w.Mon.Notes = append(w.Mon.Notes, "jobconfig create refused: "+err.Error())
			}
		}})
	}
	for d := 0; d < p.DeleteNewest; d++ {
		at := time.Duration(10+r.Intn(p.Spread+40)) * time.Second
		wl.Ops = append(wl.Ops, UserOp{At: at, Name: "delete the newest scheduled Job", Do: func(w *World) {
			var newest *execution.Job
			for _, o := range w.API.List(KJob) {
				j := o.(*execution.Job)
				if _, ok := j.Annotations[AnnScheduleTime]; ok && j.DeletionTimestamp == nil && (newest == nil || j.Annotations[AnnScheduleTime] > newest.Annotations[AnnScheduleTime]) {
					newest = j
				}
			}
			if newest != nil {
				_ = w.User.Furiko().ExecutionV1alpha1().Jobs(newest.Namespace).Delete(context.Background(), newest.Name, metav1.DeleteOptions{})
			}
		}})
	}
	for d := 0; d < p.DupRequests; d++ {
		at := time.Duration(2+r.Intn(p.Spread+30)) * time.Second
		pick, back := r.Intn(1<<30), r.Intn(4)
		ahead := 0
		if r.Intn(5) == 0 {
			ahead = 1 + r.Intn(3) // the clock was stepped back by a few seconds after the cron worker had enqueued this request
		}
		wl.Ops = append(wl.Ops, UserOp{At: at, Name: "re-deliver a schedule request", Do: func(w *World) {
			// a duplicate or out-of-order re-delivery of a schedule request that was made before
			q, reqs := w.CronQueue(), w.Mon.CronRequests()
			if q == nil || len(reqs) == 0 {
				return
			}
			i := len(reqs) - 1 - back
			if back == 3 || i < 0 {
				i = pick % len(reqs)
			}
			key := reqs[i].Key
			if k := strings.LastIndex(key, "."); ahead > 0 && k > 0 {
				// the same JobConfig, a schedule time that is (by this process's clock) still a few seconds away
				key = fmt.Sprintf("%s.%d", key[:k], w.Clk.Now().Add(time.Duration(ahead)*time.Second).Unix())
			}
			w.Mon.Injecting = true
			q.Add(key)
			w.Mon.Injecting = false
		}})
	}
	nj := p.MinJobs
	if p.MaxJobs > p.MinJobs {
		nj += r.Intn(p.MaxJobs - p.MinJobs + 1)
	}
	burstAt := time.Duration(1+r.Intn(p.Spread)) * time.Second
	for i := 0; i < nj; i++ {
		at := time.Duration(1+r.Intn(p.Spread)) * time.Second
		if p.Burst && r.Intn(2) == 0 {
			at = burstAt
		}
		name := fmt.Sprintf("j%d", i)
		j := &execution.Job{ObjectMeta: metav1.ObjectMeta{Name: name}}
		owned := len(jcs) > 0 && r.Intn(100) < p.OwnedBias
		ns := p.Namespaces[r.Intn(len(p.Namespaces))]
		if owned {
			jc := jcs[r.Intn(len(jcs))]
			ns = jc.ns
			j.Spec.ConfigName = jc.name
			if at < jc.at || (jc.at > 0 && r.Intn(2) == 0) {
				at = jc.at // created in the same instant as (right after) its JobConfig
			}
			if r.Intn(5) == 0 {
				// explicit start policy differing from the JobConfig's
				j.Spec.StartPolicy = &execution.StartPolicySpec{ConcurrencyPolicy: p.Policies[r.Intn(len(p.Policies))]}
			}
		} else {
			j.Spec.Template = &execution.JobTemplate{TaskTemplate: PodTemplate()}
			genTemplate(r, p, j.Spec.Template)
		}
		j.Namespace = ns
		if ttl := pick64(r, p.TTL); ttl >= 0 {
			j.Spec.TTLSecondsAfterFinished = pointer.Int64(ttl)
		}
		var startAfter time.Duration = -1
		if r.Intn(100) < p.StartAfterPct {
			startAfter = at + time.Duration(r.Intn(60)-10)*time.Second
			if startAfter < 0 {
				startAfter = 0
			}
			if j.Spec.StartPolicy == nil {
				j.Spec.StartPolicy = &execution.StartPolicySpec{}
				if !owned {
					j.Spec.StartPolicy.ConcurrencyPolicy = execution.ConcurrencyPolicyAllow
				}
			}
			sa := metav1.NewTime(Epoch.Add(startAfter))
			j.Spec.StartPolicy.StartAfter = &sa
		}
		desc := fmt.Sprintf("%s/%s@%v", ns, name, at)
		if owned {
			desc += "<" + j.Spec.ConfigName
		}
		wl.Desc = append(wl.Desc, desc)
		obj := j
		if r.Intn(100) < p.ForeignPct {
			// a foreign object occupies the name of the first task of the first index (retry 0 or 1)
			retry := r.Intn(2)
			if p.ForeignOnRetry {
				retry = 1
			}
			wl.Ops = append(wl.Ops, UserOp{At: at - time.Second + time.Duration(retry)*2*time.Second, Name: "plant foreign pod for " + name, Do: func(w *World) {
				kind := w.Rnd.Intn(3)
				pod := &corev1.Pod{ObjectMeta: metav1.ObjectMeta{Name: fmt.Sprintf("%s-gezdqo-%d", obj.Name, retry), Namespace: obj.Namespace}}
				t := true
				switch kind {
				case 1:
					pod.OwnerReferences = []metav1.OwnerReference{{APIVersion: "execution.furiko.io/v1alpha1", Kind: "Job", Name: obj.Name, UID: "some-other-uid", Controller: &t}}
				case 2:
					pod.OwnerReferences = []metav1.OwnerReference{{APIVersion: "apps/v1", Kind: "ReplicaSet", Name: "rs", UID: "rs-uid", Controller: &t}}
				}
				terminating := w.Rnd.Intn(3) == 0
				if terminating {
					pod.Spec.NodeName = "node-gone" // bound to a node that no longer answers
				}
				if _, err := w.User.Kubernetes().CoreV1().Pods(obj.Namespace).Create(context.Background(), pod, metav1.CreateOptions{}); err == nil {
					w.Mon.MarkForeign(obj.Namespace, obj.Name)
					if terminating {
						// the foreign Pod sits on a dead node: its deletion was requested but never completes
						// (the simulated node only runs Pods of the job controller), it stays terminating
						_ = w.User.Kubernetes().CoreV1().Pods(obj.Namespace).Delete(context.Background(), pod.Name, metav1.DeleteOptions{})
					}
				}
			}})
		}
		wl.Ops = append(wl.Ops, UserOp{At: at, Name: "create job " + ns + "/" + name, Do: func(w *World) {
			if _, err := w.User.Furiko().ExecutionV1alpha1().Jobs(obj.Namespace).Create(context.Background(), obj, metav1.CreateOptions{}); err != nil {
				w.Mon.Notes = append(w.Mon.Notes, "job create refused: "+err.Error())
			} else if sp := obj.Spec.StartPolicy; sp != nil && sp.StartAfter != nil {
				w.Mon.NoteStartAfter(obj.Namespace, obj.Name, sp.StartAfter.Time)
			}
		}})
		if startAfter >= 0 && r.Intn(100) < p.EditStartAfter {
			editAt := at + time.Duration(r.Intn(20))*time.Second
			by := time.Duration(5+r.Intn(60)) * time.Second
			wl.Ops = append(wl.Ops, UserOp{At: editAt, Name: "postpone startAfter of " + name, Do: func(w *World) {
				jobs := w.User.Furiko().ExecutionV1alpha1().Jobs(obj.Namespace)
				if cur, err := jobs.Get(context.Background(), obj.Name, metav1.GetOptions{}); err == nil && cur.Status.StartTime.IsZero() && cur.Spec.StartPolicy != nil && cur.Spec.StartPolicy.StartAfter != nil {
					sa := metav1.NewTime(cur.Spec.StartPolicy.StartAfter.Add(by))
					cur.Spec.StartPolicy.StartAfter = &sa
					if _, err := jobs.Update(context.Background(), cur, metav1.UpdateOptions{}); err == nil {
						w.Mon.NoteStartAfter(obj.Namespace, obj.Name, sa.Time)
					}
				}
			}})
		}
		if r.Intn(100) < p.KillPct {
			killAt := at + time.Duration(p.KillAfter+r.Intn(90))*time.Second
			delay := time.Duration(0)
			if r.Intn(100) < p.FutureKill {
				delay = time.Duration(1+r.Intn(20)) * time.Second
			}
			wl.Ops = append(wl.Ops, UserOp{At: killAt, Name: fmt.Sprintf("kill %s (+%v)", name, delay), Do: func(w *World) {
				jobs := w.User.Furiko().ExecutionV1alpha1().Jobs(obj.Namespace)
				if cur, err := jobs.Get(context.Background(), obj.Name, metav1.GetOptions{}); err == nil && cur.Spec.KillTimestamp == nil {
					k := metav1.NewTime(w.Clk.Now().Add(delay).Truncate(time.Second))
					cur.Spec.KillTimestamp = &k
					if _, err := jobs.Update(context.Background(), cur, metav1.UpdateOptions{}); err != nil && !strings.Contains(err.Error(), "modified") {
						w.Mon.Notes = append(w.Mon.Notes, "kill refused: "+err.Error())
					}
				}
			}})
		}
		if r.Intn(100) < p.ClearKillPct {
			clearAt := at + time.Duration(30+r.Intn(120))*time.Second
			wl.Ops = append(wl.Ops, UserOp{At: clearAt, Name: "re-apply manifest without killTimestamp: " + name, Do: func(w *World) {
				jobs := w.User.Furiko().ExecutionV1alpha1().Jobs(obj.Namespace)
				if cur, err := jobs.Get(context.Background(), obj.Name, metav1.GetOptions{}); err == nil && cur.Spec.KillTimestamp != nil {
					cur.Spec.KillTimestamp = nil
					_, _ = jobs.Update(context.Background(), cur, metav1.UpdateOptions{})
				}
			}})
		}
		if r.Intn(100) < p.EditTTLPct {
			editAt := at + time.Duration(5+r.Intn(60))*time.Second
			ttl := []int64{3600, 3600, 0, 45}[r.Intn(4)]
			wl.Ops = append(wl.Ops, UserOp{At: editAt, Name: fmt.Sprintf("set ttlSecondsAfterFinished of %s to %d", name, ttl), Do: func(w *World) {
				jobs := w.User.Furiko().ExecutionV1alpha1().Jobs(obj.Namespace)
				if cur, err := jobs.Get(context.Background(), obj.Name, metav1.GetOptions{}); err == nil {
					cur.Spec.TTLSecondsAfterFinished = pointer.Int64(ttl)
					if _, err := jobs.Update(context.Background(), cur, metav1.UpdateOptions{}); err != nil && !strings.Contains(err.Error(), "modified") {
						w.Mon.Notes = append(w.Mon.Notes, "ttl edit refused: "+err.Error())
					}
				}
			}})
		}
		if r.Intn(100) < p.ForeignFinalizerPct {
			j.Finalizers = []string{"example.com/hold"}
			delAt := at + time.Duration(5+r.Intn(90))*time.Second
			relAt := delAt + time.Duration(2+r.Intn(40))*time.Second
			wl.Ops = append(wl.Ops, UserOp{At: delAt, Name: "delete " + name + " (has a foreign finalizer)", Do: func(w *World) {
				_ = w.User.Furiko().ExecutionV1alpha1().Jobs(obj.Namespace).Delete(context.Background(), obj.Name, metav1.DeleteOptions{})
			}})
			wl.Ops = append(wl.Ops, UserOp{At: relAt, Name: "release the foreign finalizer of " + name, Do: func(w *World) {
				jobs := w.User.Furiko().ExecutionV1alpha1().Jobs(obj.Namespace)
				for try := 0; try < 3; try++ {
					cur, err := jobs.Get(context.Background(), obj.Name, metav1.GetOptions{})
					if err != nil {
						return
					}
					var keep []string
					for _, f := range cur.Finalizers {
						if f != "example.com/hold" {
							keep = append(keep, f)
						}
					}
					cur.Finalizers = keep
					if _, err := jobs.Update(context.Background(), cur, metav1.UpdateOptions{}); err == nil {
						return
					}
				}
			}})
		}
		if r.Intn(100) < p.ForceRemovePct {
			rmAt := at + time.Duration(2+r.Intn(60))*time.Second
			wl.Ops = append(wl.Ops, UserOp{At: rmAt, Name: "strip finalizers and delete " + name, Do: func(w *World) {
				jobs := w.User.Furiko().ExecutionV1alpha1().Jobs(obj.Namespace)
				if cur, err := jobs.Get(context.Background(), obj.Name, metav1.GetOptions{}); err == nil {
					cur.Finalizers = nil
					if _, err := jobs.Update(context.Background(), cur, metav1.UpdateOptions{}); err == nil {
						_ = jobs.Delete(context.Background(), obj.Name, metav1.DeleteOptions{})
					}
				}
			}})
		}
		if r.Intn(100) < p.DeletePct {
			delAt := at + time.Duration(r.Intn(120))*time.Second
			wl.Ops = append(wl.Ops, UserOp{At: delAt, Name: "delete " + name, Do: func(w *World) {
				_ = w.User.Furiko().ExecutionV1alpha1().Jobs(obj.Namespace).Delete(context.Background(), obj.Name, metav1.DeleteOptions{})
			}})
			if r.Intn(100) < p.CrashAfterDeletePct && crashOps < 2 {
				crashOps++
				wl.Ops = append(wl.Ops, UserOp{At: delAt + time.Duration(r.Intn(4))*time.Second, Name: "crash the controller process (after the deletion of " + name + ")", Do: func(w *World) {
					w.Crash()
				}})
			}
		}
	}
	return wl
}

func genTemplate(r *rand.Rand, p Profile, t *execution.JobTemplate) {
	t.MaxAttempts = pointer.Int64(int64(1 + r.Intn(p.MaxAttempts)))
	if p.MaxRetryDelay > 0 {
		t.RetryDelaySeconds = pointer.Int64(int64(r.Intn(p.MaxRetryDelay + 1)))
	}
	if r.Intn(100) < p.Parallel {
		strat := execution.AllSuccessful
		if r.Intn(2) == 0 {
			strat = execution.AnySuccessful
		}
		ps := &execution.ParallelismSpec{CompletionStrategy: strat}
		shape := r.Intn(4)
		if p.CountOnly {
			shape = 3
		}
		switch shape {
		case 0:
			ps.WithKeys = []string{"a", "b", "c"}[:2+r.Intn(2)]
		case 1:
			ps.WithMatrix = map[string][]string{"os": {"linux", "mac"}, "v": []string{"1", "2"}[:1+r.Intn(2)]}
		default:
			ps.WithCount = pointer.Int64(int64(2 + r.Intn(3)))
		}
		t.Parallelism = ps
	}
	if pt := pick64(r, p.PendingTimeout); pt >= 0 {
		t.TaskPendingTimeoutSeconds = pointer.Int64(pt)
	}
	if r.Intn(100) < p.ForbidForce {
		t.ForbidTaskForceDeletion = true
	}
}

// MarkForeign notes that a foreign object occupies a task name of the Job ns/name (created later).
func (m *Monitors) MarkForeign(ns, name string) {
	if m.foreign == nil {
		m.foreign = map[string]bool{}
	}
	m.foreign[ns+"/"+name] = true
}
