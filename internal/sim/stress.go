package sim

// The stress engine: the real controllers, built by their production constructors and
// started by controllermanager.RunControllers, on real goroutines with the real client-go
// informers and workqueues, against the simulated API server under the wall clock. It is
// meant to be run under the race detector. Only oracles that are sound without a view
// (truth-based, stable facts) run here.

import (
	"context"
	"fmt"
	"math/rand"
	"sort"
	"strconv"
	"strings"
	"sync"
	"sync/atomic"
	"time"

	corev1 "k8s.io/api/core/v1"
	apiequality "k8s.io/apimachinery/pkg/api/equality"
	metav1 "k8s.io/apimachinery/pkg/apis/meta/v1"
	"k8s.io/apimachinery/pkg/runtime"
	"k8s.io/client-go/informers"
	"k8s.io/utils/pointer"

	configv1alpha1 "github.com/furiko-io/furiko/apis/config/v1alpha1"
	execution "github.com/furiko-io/furiko/apis/execution/v1alpha1"
	"github.com/furiko-io/furiko/pkg/execution/controllers/croncontroller"
	"github.com/furiko-io/furiko/pkg/execution/controllers/jobconfigcontroller"
	"github.com/furiko-io/furiko/pkg/execution/controllers/jobcontroller"
	"github.com/furiko-io/furiko/pkg/execution/controllers/jobqueuecontroller"
	"github.com/furiko-io/furiko/pkg/execution/stores/activejobstore"
	furikoinformers "github.com/furiko-io/furiko/pkg/generated/informers/externalversions"
	"github.com/furiko-io/furiko/pkg/runtime/controllercontext"
	"github.com/furiko-io/furiko/pkg/runtime/controllercontext/mock"
	"github.com/furiko-io/furiko/pkg/runtime/controllermanager"
)

type realInformers struct {
	k informers.SharedInformerFactory
	f furikoinformers.SharedInformerFactory
}

func (r *realInformers) Start(ctx context.Context) error {
	r.k.Start(ctx.Done())
	r.f.Start(ctx.Done())
	return nil
}
func (r *realInformers) Kubernetes() informers.SharedInformerFactory   { return r.k }
func (r *realInformers) Furiko() furikoinformers.SharedInformerFactory { return r.f }

type stressCtx struct {
	cs   *Clients
	inf  *realInformers
	cfg  *mock.Configs
	strs *controllercontext.ContextStores
}

func (c *stressCtx) Start(ctx context.Context) error {
	if err := c.cfg.Start(ctx); err != nil {
		return err
	}
	return c.inf.Start(ctx)
}
func (c *stressCtx) Clientsets() controllercontext.Clientsets { return c.cs }
func (c *stressCtx) Configs() controllercontext.Configs       { return c.cfg }
func (c *stressCtx) Stores() controllercontext.Stores         { return c.strs }
func (c *stressCtx) Informers() controllercontext.Informers   { return c.inf }

// StressOptions configure one stress run.
type StressOptions struct {
	Seed       int64
	Duration   time.Duration
	JobConfigs int
	Workers    int
	FaultPct   int // before-apply faults on controller calls
	MaxDelayMs int // random delay at the API boundary (the only place between the controllers' critical sections)
}

// StressResult is what the run observed.
type StressResult struct {
	Viol        []Violation
	Counts      map[string]int
	Quiesced    bool
	Notes       []string
	StartTraces map[string]bool // distinct (policy, others-active, maxConcurrency) start situations
}

type stressMon struct {
	api   *API
	mu    sync.Mutex
	res   *StressResult
	pods  map[string]*podRec
	count map[string]int
}

func (m *stressMon) fail(prop, sig, f string, a ...interface{}) {
	m.mu.Lock()
	defer m.mu.Unlock()
	if len(m.res.Viol) < 60 {
		m.res.Viol = append(m.res.Viol, Violation{Prop: prop, Sig: sig, Msg: fmt.Sprintf(f, a...)})
	}
}
func (m *stressMon) inc(k string) {
	m.mu.Lock()
	m.res.Counts[k]++
	m.mu.Unlock()
}

// onCommit runs under the API lock.
func (m *stressMon) onCommit(ev *Event) {
	switch ev.Kind {
	case KJob:
		m.onJob(ev)
	case KPod:
		m.onPod(ev)
	case KJobConfig:
		if ev.Type == Modified {
			old, jc := ev.Old.(*execution.JobConfig), ev.Object.(*execution.JobConfig)
			m.inc("jobconfig_versions")
			if old.Status.LastScheduled != nil && (jc.Status.LastScheduled == nil || jc.Status.LastScheduled.Before(old.Status.LastScheduled)) {
				m.fail("C15", "lastScheduled-backwards", "JobConfig %s lastScheduled moved backwards", jc.Name)
			}
			if old.Status.LastExecuted != nil && (jc.Status.LastExecuted == nil || jc.Status.LastExecuted.Before(old.Status.LastExecuted)) {
				m.fail("C15", "lastExecuted-backwards", "JobConfig %s lastExecuted moved backwards", jc.Name)
			}
		}
	}
}

func (m *stressMon) onPod(ev *Event) {
	p := ev.Object.(*corev1.Pod)
	k := p.Namespace + "/" + p.Name
	juid := p.Labels[LabelJobUID]
	switch ev.Type {
	case Added:
		if !isCtrl(ev.Actor) || juid == "" {
			return
		}
		m.inc("task_creates")
		idx := p.Labels[LabelIdxHash]
		retry, _ := strconv.Atoi(p.Labels[LabelRetry])
		prev := 0
		for _, r := range m.pods {
			if r.JobUID != juid || r.Idx != idx {
				continue
			}
			prev++
			if r.Exists && r.TerminalAt.IsZero() {
				m.fail("C08", "second-live-task", "task %s created while %s of the same index is neither finished nor gone", p.Name, r.Name)
			}
		}
		if retry != prev {
			m.fail("C08", "retry-numbering", "task %s has retry number %d but %d tasks were created for this index before", p.Name, retry, prev)
		}
		m.pods[k] = &podRec{Name: p.Name, NS: p.Namespace, JobUID: juid, Idx: idx, Retry: retry, Exists: true, ByCtrl: true}
	case Modified:
		if r := m.pods[k]; r != nil && (p.Status.Phase == corev1.PodSucceeded || p.Status.Phase == corev1.PodFailed) && r.TerminalAt.IsZero() {
			r.TerminalAt = time.Now()
		}
	case Deleted:
		if r := m.pods[k]; r != nil {
			r.Exists = false
		}
	}
}

func (m *stressMon) onJob(ev *Event) {
	j := ev.Object.(*execution.Job)
	if ev.Type == Added {
		if _, ok := j.Annotations[AnnScheduleTime]; ok && isCtrl(ev.Actor) {
			m.inc("scheduled_job_creates")
			ann := j.Annotations[AnnScheduleTime]
			if !strings.HasSuffix(j.Name, "-"+ann) {
				m.fail("C02", "name-annotation-mismatch", "scheduled Job %s records schedule time %s", j.Name, ann)
			}
			for _, o := range j.OwnerReferences {
				if o.Controller != nil && *o.Controller && j.Labels[LabelJCUID] != string(o.UID) {
					m.fail("C02", "label-owner-mismatch", "scheduled Job %s labelled with JobConfig uid %q but owned by %q", j.Name, j.Labels[LabelJCUID], o.UID)
				}
			}
			for _, o := range m.api.peek(KJob) {
				x := o.(*execution.Job)
				if x.UID != j.UID && x.Namespace == j.Namespace && x.Labels[LabelJCUID] == j.Labels[LabelJCUID] && x.Annotations[AnnScheduleTime] == j.Annotations[AnnScheduleTime] {
					m.fail("C02", "duplicate-scheduled-job", "Jobs %s and %s both exist for one JobConfig and schedule time %s", x.Name, j.Name, j.Annotations[AnnScheduleTime])
				}
			}
		}
		return
	}
	old := ev.Old.(*execution.Job)
	if ev.Type == Deleted {
		m.inc("job_removals")
		for _, r := range m.pods {
			if r.JobUID == string(j.UID) && r.Exists {
				listed := false
				for _, ref := range old.Status.Tasks {
					listed = listed || ref.Name == r.Name
				}
				if listed {
					m.fail("C13", "job-removed-with-tasks", "Job %s removed from the API while its task %s still exists", j.Name, r.Name)
				}
			}
		}
		return
	}
	m.inc("job_versions")
	// C11 monotonicity
	if !old.Status.StartTime.IsZero() && !old.Status.StartTime.Equal(j.Status.StartTime) {
		m.fail("C11", "startTime-changed", "Job %s start time changed from %v to %v", j.Name, old.Status.StartTime, j.Status.StartTime)
	}
	if old.Status.Condition.Finished != nil && j.Status.Condition.Finished == nil {
		m.fail("C11", "became-unfinished", "finished Job %s became unfinished", j.Name)
	}
	if j.Status.CreatedTasks < old.Status.CreatedTasks {
		m.fail("C11", "createdTasks-decreased", "Job %s createdTasks went from %d to %d", j.Name, old.Status.CreatedTasks, j.Status.CreatedTasks)
	}
	for _, ot := range old.Status.Tasks {
		found := false
		for _, nt := range j.Status.Tasks {
			if nt.Name == ot.Name {
				found = true
				if !ot.RunningTimestamp.IsZero() && nt.RunningTimestamp.IsZero() {
					m.fail("C11", "running-timestamp-cleared", "Job %s task %s running timestamp was cleared", j.Name, ot.Name)
				}
				if !ot.FinishTimestamp.IsZero() && nt.FinishTimestamp.IsZero() {
					m.fail("C11", "finish-timestamp-cleared", "Job %s task %s finish timestamp was cleared", j.Name, ot.Name)
				}
			}
		}
		if !found {
			m.fail("C09", "task-ref-disappeared", "Job %s no longer lists task %s", j.Name, ot.Name)
		}
	}
	started := old.Status.StartTime.IsZero() && !j.Status.StartTime.IsZero()
	if isCtrl(ev.Actor) && ev.Verb == "update/status" {
		if started {
			// the queue controller's start write changes startTime only
			o2 := old.DeepCopy()
			o2.Status.StartTime = j.Status.StartTime
			if !apiequality.Semantic.DeepEqual(o2.Status, j.Status) {
				m.fail("C11", "start-write-changed-more", "the start write of Job %s changed more than startTime", j.Name)
			}
		} else {
			m.inc("coherence_checks")
			c := j.Status.Condition
			n := 0
			for _, b := range []bool{c.Queueing != nil, c.Waiting != nil, c.Running != nil, c.Finished != nil} {
				if b {
					n++
				}
			}
			if n != 1 {
				m.fail("C11", "condition-count", "Job %s has %d of the queueing/waiting/running/finished conditions set", j.Name, n)
			}
			if j.Status.Phase.IsTerminal() != (c.Finished != nil) {
				m.fail("C11", "phase-vs-finished", "Job %s phase %s but finished condition set=%v", j.Name, j.Status.Phase, c.Finished != nil)
			}
			if j.Status.CreatedTasks != int64(len(j.Status.Tasks)) {
				m.fail("C11", "createdTasks-vs-list", "Job %s createdTasks %d but %d tasks listed", j.Name, j.Status.CreatedTasks, len(j.Status.Tasks))
			}
		}
	}
	// C05 at the start write
	if started {
		m.inc("start_writes")
		if sp := j.Spec.StartPolicy; sp != nil && sp.StartAfter != nil && time.Now().Add(time.Second).Before(sp.StartAfter.Time) {
			m.fail("C07", "started-before-startAfter", "Job %s started more than a second before its startAfter", j.Name)
		}
		jcuid := j.Labels[LabelJCUID]
		if jcuid == "" || j.Spec.StartPolicy == nil {
			return
		}
		pol := j.Spec.StartPolicy.ConcurrencyPolicy
		var jc *execution.JobConfig
		for _, o := range m.api.peek(KJobConfig) {
			if x := o.(*execution.JobConfig); string(x.UID) == jcuid {
				jc = x
			}
		}
		others := 0
		for _, o := range m.api.peek(KJob) {
			if x := o.(*execution.Job); x.UID != j.UID && x.Labels[LabelJCUID] == jcuid && isActive(x) {
				others++
			}
		}
		if jc != nil && (pol == execution.ConcurrencyPolicyForbid || pol == execution.ConcurrencyPolicyEnqueue) {
			m.inc("bounded_start_writes")
			max := jc.Spec.Concurrency.GetMaxConcurrency()
			m.mu.Lock()
			m.res.StartTraces[fmt.Sprintf("%s others=%d max=%d", pol, others, max)] = true
			m.mu.Unlock()
			if others > 0 {
				m.inc("contended_start_writes")
			}
			if int64(others) >= max {
				m.fail("C05", "concurrency-exceeded", "Job %s (%s) started while %d Jobs of the same JobConfig are started and not finished (maxConcurrency %d)", j.Name, pol, others, max)
			}
		}
	}
}

// RunStress executes one stress run.
func RunStress(opt StressOptions) *StressResult {
	SilenceLogs()
	res := &StressResult{Counts: map[string]int{}, StartTraces: map[string]bool{}}
	rnd := rand.New(rand.NewSource(opt.Seed))
	api := NewAPI(time.Now)
	cfg := mock.NewConfigs()
	cfg.SetConfigs(map[configv1alpha1.ConfigName]runtime.Object{
		configv1alpha1.JobExecutionConfigName:  &configv1alpha1.JobExecutionConfig{DefaultTTLSecondsAfterFinished: pointer.Int64(2), DefaultPendingTimeoutSeconds: pointer.Int64(0), ForceDeleteTaskTimeoutSeconds: pointer.Int64(0)},
		configv1alpha1.CronExecutionConfigName: &configv1alpha1.CronExecutionConfig{MaxMissedSchedules: pointer.Int64(3)},
	})
	adm, err := NewAdmission(api, cfg)
	if err != nil {
		res.Notes = append(res.Notes, "admission: "+err.Error())
		return res
	}
	api.Admit = adm.Admit
	mon := &stressMon{api: api, res: res, pods: map[string]*podRec{}}
	api.OnCommit = append(api.OnCommit, mon.onCommit)

	cs := NewClients(api, "ctrl#1")
	var gateMu sync.Mutex
	gateRnd := rand.New(rand.NewSource(opt.Seed ^ 0x5157))
	var faults int64
	var faultsOn int32 = 1
	cs.Gate = func(ctx context.Context, c *Call) {
		gateMu.Lock()
		d := time.Duration(0)
		if opt.MaxDelayMs > 0 {
			d = time.Duration(gateRnd.Intn(opt.MaxDelayMs*1000)) * time.Microsecond
		}
		f := FNone
		if atomic.LoadInt32(&faultsOn) == 1 && gateRnd.Intn(100) < opt.FaultPct {
			f = []FaultKind{F500Before, F409Before, F503Before}[gateRnd.Intn(3)]
		}
		gateMu.Unlock()
		if d > 0 {
			time.Sleep(d)
		}
		if f != FNone {
			atomic.AddInt64(&faults, 1)
			c.Fault = f
		}
	}
	c := &stressCtx{cs: cs, cfg: cfg, strs: controllercontext.NewContextStores()}
	c.inf = &realInformers{k: informers.NewSharedInformerFactory(cs.Kubernetes(), 0), f: furikoinformers.NewSharedInformerFactory(cs.Furiko(), 0)}
	ctx, cancel := context.WithCancel(context.Background())
	defer cancel()

	store, _ := activejobstore.NewStore(c)
	c.strs.Register(store)
	conc := &configv1alpha1.Concurrency{Workers: uint64(opt.Workers)}
	cc, err := croncontroller.NewController(c, conc)
	if err != nil {
		res.Notes = append(res.Notes, "croncontroller: "+err.Error())
		return res
	}
	jc, _ := jobcontroller.NewController(c, conc)
	jcc, _ := jobconfigcontroller.NewController(c, conc)
	jqc, _ := jobqueuecontroller.NewController(c, conc)
	ctrls := []controllermanager.Controller{cc, jc, jcc, jqc}

	user := NewClients(api, "user")
	var jcNames []string
	for i := 0; i < opt.JobConfigs; i++ {
		pol := []execution.ConcurrencyPolicy{execution.ConcurrencyPolicyForbid, execution.ConcurrencyPolicyEnqueue, execution.ConcurrencyPolicyEnqueue}[i%3]
		jcfg := &execution.JobConfig{ObjectMeta: metav1.ObjectMeta{Name: fmt.Sprintf("jc%d", i), Namespace: "default"},
			Spec: execution.JobConfigSpec{Concurrency: execution.ConcurrencySpec{Policy: pol, MaxConcurrency: pointer.Int64(int64(1 + i%3))},
				Schedule: &execution.ScheduleSpec{Cron: &execution.CronSchedule{Expression: []string{"* * * * * * *", "*/2 * * * * * *"}[i%2]}},
				Template: execution.JobTemplateSpec{Spec: execution.JobTemplate{MaxAttempts: pointer.Int64(int64(1 + i%2)), TaskTemplate: PodTemplate()}}}}
		if i%2 == 0 {
			jcfg.Spec.Template.Annotations = map[string]string{"note": "from-template"}
			jcfg.Spec.Template.Labels = map[string]string{"team": "a"}
		}
		if i%4 == 3 {
			jcfg.Spec.Template.Spec.Parallelism = &execution.ParallelismSpec{WithCount: pointer.Int64(2)}
		}
		if _, err := user.Furiko().ExecutionV1alpha1().JobConfigs("default").Create(ctx, jcfg, metav1.CreateOptions{}); err != nil {
			res.Notes = append(res.Notes, "jobconfig create: "+err.Error())
			continue
		}
		jcNames = append(jcNames, jcfg.Name)
	}
	if err := c.Start(ctx); err != nil {
		res.Notes = append(res.Notes, "start: "+err.Error())
		return res
	}
	if err := store.Recover(ctx); err != nil {
		res.Notes = append(res.Notes, "recover: "+err.Error())
		return res
	}
	if err := controllermanager.RunControllers(ctx, ctrls); err != nil {
		res.Notes = append(res.Notes, "run: "+err.Error())
		return res
	}

	// the node
	kub := NewClients(api, "kubelet")
	var wg sync.WaitGroup
	stopLoad := make(chan struct{})
	wg.Add(1)
	go func() {
		defer wg.Done()
		zero := int64(0)
		for ctx.Err() == nil {
			time.Sleep(15 * time.Millisecond)
			for _, o := range api.List(KPod) {
				p := o.(*corev1.Pod)
				pods := kub.Kubernetes().CoreV1().Pods(p.Namespace)
				now := metav1.Now()
				terminal := p.Status.Phase == corev1.PodSucceeded || p.Status.Phase == corev1.PodFailed
				switch {
				case p.DeletionTimestamp != nil:
					_ = pods.Delete(ctx, p.Name, metav1.DeleteOptions{GracePeriodSeconds: &zero})
				case terminal:
				case p.Spec.NodeName == "":
					p.Spec.NodeName = "node-1"
					_, _ = pods.Update(ctx, p, metav1.UpdateOptions{})
				case p.Status.Phase != corev1.PodRunning:
					p.Status.Phase = corev1.PodRunning
					p.Status.StartTime = &now
					p.Status.ContainerStatuses = []corev1.ContainerStatus{{Name: "c", State: corev1.ContainerState{Running: &corev1.ContainerStateRunning{StartedAt: now}}}}
					_, _ = pods.UpdateStatus(ctx, p, metav1.UpdateOptions{})
				case time.Since(p.Status.StartTime.Time) > time.Duration(300+len(p.Name)%5*300)*time.Millisecond:
					term := &corev1.ContainerStateTerminated{StartedAt: *p.Status.StartTime, FinishedAt: now, Reason: "Completed"}
					p.Status.Phase = corev1.PodSucceeded
					if strings.HasSuffix(p.Name, "-0") && len(p.Name)%3 == 0 {
						p.Status.Phase = corev1.PodFailed
						term.ExitCode, term.Reason = 1, "Error"
					}
					p.Status.ContainerStatuses = []corev1.ContainerStatus{{Name: "c", State: corev1.ContainerState{Terminated: term}}}
					_, _ = pods.UpdateStatus(ctx, p, metav1.UpdateOptions{})
				}
			}
		}
	}()
	// the user: ad-hoc Jobs, kills, deletes
	wg.Add(1)
	go func() {
		defer wg.Done()
		i := 0
		for {
			select {
			case <-stopLoad:
				return
			case <-time.After(time.Duration(40+rnd.Intn(120)) * time.Millisecond):
			}
			i++
			jobsC := user.Furiko().ExecutionV1alpha1().Jobs("default")
			switch rnd.Intn(5) {
			case 0, 1:
				if len(jcNames) == 0 {
					continue
				}
				j := &execution.Job{ObjectMeta: metav1.ObjectMeta{Name: fmt.Sprintf("adhoc-%d", i), Namespace: "default"}, Spec: execution.JobSpec{ConfigName: jcNames[rnd.Intn(len(jcNames))]}}
				if _, err := jobsC.Create(ctx, j, metav1.CreateOptions{}); err == nil {
					mon.inc("adhoc_jobs")
				}
			case 2:
				jobs := api.List(KJob)
				if len(jobs) > 0 {
					j := jobs[rnd.Intn(len(jobs))].(*execution.Job)
					if j.Spec.KillTimestamp == nil {
						k := metav1.NewTime(time.Now())
						j.Spec.KillTimestamp = &k
						if _, err := jobsC.Update(ctx, j, metav1.UpdateOptions{}); err == nil {
							mon.inc("kills")
						}
					}
				}
			case 3:
				jobs := api.List(KJob)
				if len(jobs) > 0 {
					j := jobs[rnd.Intn(len(jobs))].(*execution.Job)
					if jobsC.Delete(ctx, j.Name, metav1.DeleteOptions{}) == nil {
						mon.inc("deletes")
					}
				}
			}
		}
	}()
	time.Sleep(opt.Duration)
	close(stopLoad)
	// stop producing work: disable all schedules, stop injecting faults, let everything drain
	atomic.StoreInt32(&faultsOn, 0)
	for _, n := range jcNames {
		jcs := user.Furiko().ExecutionV1alpha1().JobConfigs("default")
		for try := 0; try < 5; try++ {
			cur, err := jcs.Get(ctx, n, metav1.GetOptions{})
			if err != nil {
				break
			}
			cur.Spec.Schedule.Disabled = true
			if _, err := jcs.Update(ctx, cur, metav1.UpdateOptions{}); err == nil {
				break
			}
		}
	}
	// quiescence: no committed change for 1.5 s (bounded wait; not reaching it is inconclusive, not a violation)
	last, lastChange := api.LogLen(), time.Now()
	deadline := time.Now().Add(25 * time.Second)
	for time.Now().Before(deadline) {
		time.Sleep(100 * time.Millisecond)
		if n := api.LogLen(); n != last {
			last, lastChange = n, time.Now()
		} else if time.Since(lastChange) > 1500*time.Millisecond {
			res.Quiesced = true
			break
		}
	}
	if res.Quiesced {
		api.Locked(func() {
			for _, o := range api.peek(KJobConfig) {
				jcfg := o.(*execution.JobConfig)
				var act []string
				for _, x := range api.peek(KJob) {
					if xj := x.(*execution.Job); xj.Labels[LabelJCUID] == string(jcfg.UID) && isActive(xj) {
						act = append(act, xj.Name)
					}
				}
				sort.Strings(act)
				res.Counts["counter_checks"]++
				if cnt := store.CountActiveJobsForConfig(jcfg); int(cnt) != len(act) {
					res.Viol = append(res.Viol, Violation{Prop: "C05", Sig: "counter-vs-truth", Msg: fmt.Sprintf("after the run went quiet the active-job counter for JobConfig %s is %d but %d Jobs are started and not finished %v", jcfg.Name, cnt, len(act), act)})
				}
			}
		})
	} else {
		res.Notes = append(res.Notes, "the system did not go quiet within 25 s after the load stopped")
	}
	cancel()
	wg.Wait()
	res.Counts["faults_injected"] = int(atomic.LoadInt64(&faults))
	res.Counts["api_events"] = api.LogLen()
	return res
}
