// Package sim is the deterministic simulation engine: a simulated API server
// (this file), typed client wrappers, deterministic informers and workqueues,
// the world that boots real furiko controllers on top of them, the driver that
// single-steps everything, the simulated kubelet/user, and the monitors.
package sim

import (
	"encoding/json"
	"fmt"
	"reflect"
	"sort"
	"strconv"
	"sync"
	"time"

	corev1 "k8s.io/api/core/v1"
	kerrors "k8s.io/apimachinery/pkg/api/errors"
	"k8s.io/apimachinery/pkg/api/meta"
	metav1 "k8s.io/apimachinery/pkg/apis/meta/v1"
	"k8s.io/apimachinery/pkg/runtime"
	"k8s.io/apimachinery/pkg/runtime/schema"
	"k8s.io/apimachinery/pkg/types"

	execution "github.com/furiko-io/furiko/apis/execution/v1alpha1"
)

type Kind string

const (
	KJob       Kind = "jobs"
	KJobConfig Kind = "jobconfigs"
	KPod       Kind = "pods"
)

var groupRes = map[Kind]schema.GroupResource{
	KJob:       {Group: "execution.furiko.io", Resource: "jobs"},
	KJobConfig: {Group: "execution.furiko.io", Resource: "jobconfigs"},
	KPod:       {Group: "", Resource: "pods"},
}

type EventType string

const (
	Added    EventType = "ADDED"
	Modified EventType = "MODIFIED"
	Deleted  EventType = "DELETED"
)

// Event is one committed change of the authoritative state.
type Event struct {
	Seq    int
	Kind   Kind
	Type   EventType
	Object runtime.Object // state after the change (last state for deletions)
	Old    runtime.Object // state before (nil for creations)
	Actor  string
	Verb   string // create | update | update/status | delete
	Time   time.Time
	Task   int // id of the reconcile that issued the call (0: none)
	Force  bool
	Fault  FaultKind // fault decided for the call that committed this change (timeout-after / crash-after are the only ones that commit)
}

// FaultKind is what the scheduler decided for one call.
type FaultKind int

const (
	FNone FaultKind = iota
	F500Before
	F409Before
	F503Before
	F429Before
	F422Before      // Invalid (used for Pod creates: reaches the AdmissionRefused path)
	FTimeoutAfter   // applied, but the caller gets a timeout error
	FCrashBefore    // the incarnation dies right before the call is applied
	FCrashAfter     // the incarnation dies right after the call was applied
	FNotFoundBefore // spurious 404 (never injected by default)
)

func (f FaultKind) String() string {
	return [...]string{"none", "500-before", "409-before", "503-before", "429-before", "422-before", "timeout-after", "crash-before", "crash-after", "404-before"}[f]
}

// Call describes one client call.
type Call struct {
	Actor string
	Verb  string
	Kind  Kind
	NS    string
	Name  string
	Task  int
	Fault FaultKind
	Force bool // pod delete with grace period 0
}

func (c *Call) String() string {
	return fmt.Sprintf("%s %s %s %s/%s", c.Actor, c.Verb, c.Kind, c.NS, c.Name)
}

// API is the simulated API server. One mutex guards everything, and the
// commit hooks (monitors) run under it.
type API struct {
	mu    sync.Mutex
	cond  *sync.Cond
	objs  map[Kind]map[string]runtime.Object
	rv    int
	uid   int
	Log   []Event
	Now   func() time.Time
	Dead  map[string]bool // actors whose process crashed: their calls never return
	Calls int             // number of mutating calls by controller actors (fault enumeration index)

	// Admit is the admission chain for main-resource CREATE/UPDATE of jobs and jobconfigs.
	Admit func(op string, kind Kind, old, obj runtime.Object) (runtime.Object, error)
	// OnCommit hooks run under the lock after each committed change.
	OnCommit []func(ev *Event)
	// OnCall hooks run under the lock for every mutating call before it is applied (fault already decided).
	OnCall []func(c *Call)
	// OnCrash is invoked (under the lock) when a crash fault kills an actor.
	OnCrash func(actor string)
}

func NewAPI(now func() time.Time) *API {
	a := &API{objs: map[Kind]map[string]runtime.Object{KJob: {}, KJobConfig: {}, KPod: {}}, Now: now, Dead: map[string]bool{}}
	a.cond = sync.NewCond(&a.mu)
	return a
}

func key(ns, name string) string { return ns + "/" + name }

func newOf(k Kind) runtime.Object {
	switch k {
	case KJob:
		return &execution.Job{}
	case KJobConfig:
		return &execution.JobConfig{}
	case KPod:
		return &corev1.Pod{}
	}
	panic(k)
}

// roundTrip emulates serialization through the API server (second-precision timestamps etc).
func roundTrip(k Kind, o runtime.Object) runtime.Object {
	b, err := json.Marshal(o)
	if err != nil {
		panic(err)
	}
	n := newOf(k)
	if err := json.Unmarshal(b, n); err != nil {
		panic(err)
	}
	return n
}

func (a *API) emit(k Kind, t EventType, old, obj runtime.Object, c *Call) {
	ev := Event{Seq: len(a.Log), Kind: k, Type: t, Object: obj.DeepCopyObject(), Actor: c.Actor, Verb: c.Verb, Time: a.Now(), Task: c.Task, Force: c.Force, Fault: c.Fault}
	if old != nil {
		ev.Old = old.DeepCopyObject()
	}
	a.Log = append(a.Log, ev)
	a.cond.Broadcast()
	for _, f := range a.OnCommit {
		f(&a.Log[len(a.Log)-1])
	}
}

func (a *API) nextRV() string { a.rv++; return strconv.Itoa(a.rv) }

func faultErr(c *Call) error {
	switch c.Fault {
	case F500Before:
		return kerrors.NewInternalError(fmt.Errorf("injected internal error"))
	case F409Before:
		return kerrors.NewConflict(groupRes[c.Kind], c.Name, fmt.Errorf("injected conflict"))
	case F503Before:
		return kerrors.NewServiceUnavailable("injected unavailable")
	case F429Before:
		return kerrors.NewTooManyRequests("injected throttling", 1)
	case F422Before:
		return kerrors.NewInvalid(schema.GroupKind{Kind: string(c.Kind)}, c.Name, nil)
	case FNotFoundBefore:
		return kerrors.NewNotFound(groupRes[c.Kind], c.Name)
	}
	return nil
}

// begin is called under the lock at the start of each mutating call; it blocks
// forever for dead actors and returns a non-nil error for before-faults.
func (a *API) begin(c *Call) error {
	for a.Dead[c.Actor] {
		a.cond.Wait() // never woken up for this actor: the process is gone
	}
	if isCtrl(c.Actor) {
		a.Calls++
	}
	for _, f := range a.OnCall {
		f(c)
	}
	if c.Fault == FCrashBefore {
		a.kill(c.Actor)
		for {
			a.cond.Wait()
		}
	}
	return faultErr(c)
}

// end is called under the lock after a call was applied.
func (a *API) end(c *Call) error {
	switch c.Fault {
	case FTimeoutAfter:
		return kerrors.NewTimeoutError("injected timeout: the request may or may not have been applied", 1)
	case FCrashAfter:
		a.kill(c.Actor)
		for {
			a.cond.Wait()
		}
	}
	return nil
}

func (a *API) kill(actor string) {
	a.Dead[actor] = true
	if a.OnCrash != nil {
		a.OnCrash(actor)
	}
}

func isCtrl(actor string) bool { return len(actor) >= 4 && actor[:4] == "ctrl" }

func (a *API) Create(c *Call, in runtime.Object) (runtime.Object, error) {
	a.mu.Lock()
	defer a.mu.Unlock()
	if err := a.begin(c); err != nil {
		return nil, err
	}
	obj := roundTrip(c.Kind, in)
	m, _ := meta.Accessor(obj)
	if m.GetName() == "" {
		return nil, kerrors.NewBadRequest("name required")
	}
	kk := key(m.GetNamespace(), m.GetName())
	if _, ok := a.objs[c.Kind][kk]; ok {
		return nil, kerrors.NewAlreadyExists(groupRes[c.Kind], m.GetName())
	}
	if a.Admit != nil && c.Kind != KPod {
		admitted, err := a.Admit("CREATE", c.Kind, nil, obj)
		if err != nil {
			return nil, err
		}
		obj = admitted
		m, _ = meta.Accessor(obj)
	}
	// status is reset on create for resources with a status subresource
	if c.Kind != KPod {
		setField(obj, "Status", newOf(c.Kind))
	}
	a.uid++
	m.SetUID(types.UID(fmt.Sprintf("uid-%d", a.uid)))
	m.SetResourceVersion(a.nextRV())
	m.SetCreationTimestamp(metav1.NewTime(a.Now().Truncate(time.Second)))
	m.SetDeletionTimestamp(nil)
	a.objs[c.Kind][kk] = obj
	a.emit(c.Kind, Added, nil, obj, c)
	if err := a.end(c); err != nil {
		return nil, err
	}
	return obj.DeepCopyObject(), nil
}

func (a *API) Get(k Kind, ns, name string) (runtime.Object, error) {
	a.mu.Lock()
	defer a.mu.Unlock()
	o, ok := a.objs[k][key(ns, name)]
	if !ok {
		return nil, kerrors.NewNotFound(groupRes[k], name)
	}
	return o.DeepCopyObject(), nil
}

// GetAs is Get on behalf of an actor (dead actors never get an answer).
func (a *API) GetAs(actor string, k Kind, ns, name string) (runtime.Object, error) {
	a.mu.Lock()
	for a.Dead[actor] {
		a.cond.Wait()
	}
	a.mu.Unlock()
	return a.Get(k, ns, name)
}

// List returns copies of all objects of a kind, sorted by key.
func (a *API) List(k Kind) []runtime.Object {
	a.mu.Lock()
	defer a.mu.Unlock()
	return a.listLocked(k)
}

func (a *API) listLocked(k Kind) []runtime.Object {
	keys := make([]string, 0, len(a.objs[k]))
	for kk := range a.objs[k] {
		keys = append(keys, kk)
	}
	sort.Strings(keys)
	out := make([]runtime.Object, 0, len(keys))
	for _, kk := range keys {
		out = append(out, a.objs[k][kk].DeepCopyObject())
	}
	return out
}

// Peek gives read-only access to the live objects under the lock (for monitors running in commit hooks: no copy).
func (a *API) peek(k Kind) map[string]runtime.Object { return a.objs[k] }

func setField(obj runtime.Object, field string, from runtime.Object) {
	reflect.ValueOf(obj).Elem().FieldByName(field).Set(reflect.ValueOf(from).Elem().FieldByName(field))
}

// Update implements main-resource (status=false) or status-subresource updates.
func (a *API) Update(c *Call, in runtime.Object, status bool) (runtime.Object, error) {
	a.mu.Lock()
	defer a.mu.Unlock()
	if err := a.begin(c); err != nil {
		return nil, err
	}
	obj := roundTrip(c.Kind, in)
	m, _ := meta.Accessor(obj)
	kk := key(m.GetNamespace(), m.GetName())
	cur, ok := a.objs[c.Kind][kk]
	if !ok {
		return nil, kerrors.NewNotFound(groupRes[c.Kind], m.GetName())
	}
	cm, _ := meta.Accessor(cur)
	if m.GetUID() != "" && m.GetUID() != cm.GetUID() {
		return nil, kerrors.NewConflict(groupRes[c.Kind], m.GetName(), fmt.Errorf("Precondition failed: UID in precondition: %v, UID in object meta: %v", m.GetUID(), cm.GetUID()))
	}
	if m.GetResourceVersion() != "" && m.GetResourceVersion() != cm.GetResourceVersion() {
		return nil, kerrors.NewConflict(groupRes[c.Kind], m.GetName(), fmt.Errorf("the object has been modified; please apply your changes to the latest version and try again"))
	}
	next := cur.DeepCopyObject()
	nm, _ := meta.Accessor(next)
	if status {
		setField(next, "Status", obj)
	} else {
		if c.Kind == KPod {
			// only spec.nodeName (binding) and metadata are mutable in this model
			next.(*corev1.Pod).Spec.NodeName = obj.(*corev1.Pod).Spec.NodeName
		} else {
			setField(next, "Spec", obj)
		}
		nm.SetLabels(m.GetLabels())
		nm.SetAnnotations(m.GetAnnotations())
		nm.SetFinalizers(m.GetFinalizers())
		nm.SetOwnerReferences(m.GetOwnerReferences())
		if a.Admit != nil && c.Kind != KPod {
			admitted, err := a.Admit("UPDATE", c.Kind, cur, next)
			if err != nil {
				return nil, err
			}
			// admission must not touch status or server-owned metadata
			setField(admitted, "Status", cur)
			am, _ := meta.Accessor(admitted)
			am.SetUID(cm.GetUID())
			am.SetResourceVersion(cm.GetResourceVersion())
			am.SetCreationTimestamp(cm.GetCreationTimestamp())
			am.SetDeletionTimestamp(cm.GetDeletionTimestamp())
			am.SetDeletionGracePeriodSeconds(cm.GetDeletionGracePeriodSeconds())
			next = admitted
			nm = am
		}
	}
	if reflect.DeepEqual(next, cur) {
		if err := a.end(c); err != nil {
			return nil, err
		}
		return cur.DeepCopyObject(), nil // a no-op update does not create a new version
	}
	nm.SetResourceVersion(a.nextRV())
	if nm.GetDeletionTimestamp() != nil && len(nm.GetFinalizers()) == 0 && c.Kind != KPod {
		delete(a.objs[c.Kind], kk)
		a.emit(c.Kind, Deleted, cur, next, c)
	} else {
		a.objs[c.Kind][kk] = next
		a.emit(c.Kind, Modified, cur, next, c)
	}
	if err := a.end(c); err != nil {
		return nil, err
	}
	return next.DeepCopyObject(), nil
}

func (a *API) Delete(c *Call, opts metav1.DeleteOptions) error {
	a.mu.Lock()
	defer a.mu.Unlock()
	if err := a.begin(c); err != nil {
		return err
	}
	kk := key(c.NS, c.Name)
	cur, ok := a.objs[c.Kind][kk]
	if !ok {
		return kerrors.NewNotFound(groupRes[c.Kind], c.Name)
	}
	cm, _ := meta.Accessor(cur)
	if p := opts.Preconditions; p != nil && p.UID != nil && *p.UID != cm.GetUID() {
		return kerrors.NewConflict(groupRes[c.Kind], c.Name, fmt.Errorf("Precondition failed: UID in precondition: %v, UID in object meta: %v", *p.UID, cm.GetUID()))
	}
	if p := opts.Preconditions; p != nil && p.ResourceVersion != nil && *p.ResourceVersion != cm.GetResourceVersion() {
		return kerrors.NewConflict(groupRes[c.Kind], c.Name, fmt.Errorf("Precondition failed: ResourceVersion in precondition: %v, ResourceVersion in object meta: %v", *p.ResourceVersion, cm.GetResourceVersion()))
	}
	next := cur.DeepCopyObject()
	nm, _ := meta.Accessor(next)
	graceful := false
	if c.Kind == KPod {
		pod := cur.(*corev1.Pod)
		grace := int64(30)
		if pod.Spec.TerminationGracePeriodSeconds != nil {
			grace = *pod.Spec.TerminationGracePeriodSeconds
		}
		if opts.GracePeriodSeconds != nil {
			grace = *opts.GracePeriodSeconds
		}
		if pod.Spec.NodeName == "" || pod.Status.Phase == corev1.PodSucceeded || pod.Status.Phase == corev1.PodFailed {
			grace = 0
		}
		if grace > 0 {
			graceful = true
			if cm.GetDeletionTimestamp() == nil {
				ts := metav1.NewTime(a.Now().Add(time.Duration(grace) * time.Second).Truncate(time.Second))
				nm.SetDeletionTimestamp(&ts)
				nm.SetDeletionGracePeriodSeconds(&grace)
			}
		}
	}
	if len(cm.GetFinalizers()) > 0 || graceful {
		if cm.GetDeletionTimestamp() == nil && nm.GetDeletionTimestamp() == nil {
			ts := metav1.NewTime(a.Now().Truncate(time.Second))
			nm.SetDeletionTimestamp(&ts)
		}
		if !reflect.DeepEqual(next, cur) {
			nm.SetResourceVersion(a.nextRV())
			a.objs[c.Kind][kk] = next
			a.emit(c.Kind, Modified, cur, next, c)
		}
		return a.end(c)
	}
	delete(a.objs[c.Kind], kk)
	nm.SetResourceVersion(a.nextRV())
	a.emit(c.Kind, Deleted, cur, next, c)
	return a.end(c)
}

// Locked runs f under the API lock (quiescent-point oracles read a consistent state).
func (a *API) Locked(f func()) {
	a.mu.Lock()
	defer a.mu.Unlock()
	f()
}

// LogLen returns the current length of the event log.
func (a *API) LogLen() int {
	a.mu.Lock()
	defer a.mu.Unlock()
	return len(a.Log)
}

// EventAt returns the event with the given sequence number.
func (a *API) EventAt(i int) *Event {
	a.mu.Lock()
	defer a.mu.Unlock()
	return &a.Log[i]
}
