package sim

import (
	"context"
	"fmt"
	"hash/fnv"
	"math/rand"
	"sort"
	"time"

	corev1 "k8s.io/api/core/v1"
	metav1 "k8s.io/apimachinery/pkg/apis/meta/v1"

	execution "github.com/furiko-io/furiko/apis/execution/v1alpha1"
	"github.com/furiko-io/furiko/pkg/execution/controllers/croncontroller"
)

// KubeletOptions bias the fates of Pods.
type KubeletOptions struct {
	Seed         int64
	NeverSched   int // 1-in-N Pods never get scheduled (0: never happens)
	FailRate     int // percent of attempts that fail (default 40)
	NeverDie     int // 1-in-N Pods ignore deletion forever (0: never)
	LateDie      int // 1-in-N Pods take 10-40s to terminate after deletion
	Flap         int // 1-in-N running Pods lose their container statuses for one update
	Vanish       int // 1-in-N running Pods are removed by the node (force delete by an outside actor)
	ExitOnDelete int // 1-in-N deleted Pods first report a terminal status of their own (Succeeded/Failed) before being removed
	MaxRun       int // seconds (default 15)
	SlowStart    int // 1-in-N scheduled Pods take 20-70 s before their container starts (slow image pull)
	Sidecar      int // 1-in-N Pods run a helper container next to the main one; it exits (code 0 or 1) a second after the start while the main container keeps running
	TermFlap     int // 1-in-N terminated Pods are reported once more without any container status (node agent restart), then restored
}

// Fate is the ground truth of what a Pod does, a function of (seed, pod name) only.
type Fate struct {
	SchedDelay time.Duration // <0: never scheduled
	StartDelay time.Duration
	RunFor     time.Duration
	Result     string // succ | fail | oom
	OnDelete   string // prompt | late | never
	DieAfter   time.Duration
	ExitFirst  string // "" | succ | fail : report this terminal status when deleted, before removal
	Flap       bool
	VanishAt   time.Duration // >0: removed externally that long after it started running
	TermFlap   bool
	Sidecar    string // "" | ok | err : how the helper container exits
}

func (o KubeletOptions) FateOf(name string) Fate {
	h := fnv.New64a()
	h.Write([]byte(fmt.Sprintf("%d/%s", o.Seed, name)))
	r := rand.New(rand.NewSource(int64(h.Sum64())))
	maxRun := o.MaxRun
	if maxRun <= 0 {
		maxRun = 15
	}
	f := Fate{SchedDelay: time.Duration(r.Intn(4)) * time.Second, StartDelay: time.Duration(r.Intn(3)) * time.Second, RunFor: time.Duration(2+r.Intn(maxRun)) * time.Second}
	if o.NeverSched > 0 && r.Intn(o.NeverSched) == 0 {
		f.SchedDelay = -1
	}
	fail := o.FailRate
	if fail == 0 {
		fail = 40
	}
	switch x := r.Intn(100); {
	case x < fail*4/5:
		f.Result = "fail"
	case x < fail:
		f.Result = "oom"
	default:
		f.Result = "succ"
	}
	f.OnDelete = "prompt"
	if o.NeverDie > 0 && r.Intn(o.NeverDie) == 0 {
		f.OnDelete = "never"
	} else if o.LateDie > 0 && r.Intn(o.LateDie) == 0 {
		f.OnDelete = "late"
		f.DieAfter = time.Duration(10+r.Intn(30)) * time.Second
	}
	if o.ExitOnDelete > 0 && r.Intn(o.ExitOnDelete) == 0 {
		f.ExitFirst = []string{"succ", "fail"}[r.Intn(2)]
	}
	f.Flap = o.Flap > 0 && r.Intn(o.Flap) == 0
	if o.Vanish > 0 && r.Intn(o.Vanish) == 0 {
		f.VanishAt = time.Duration(1+r.Intn(5)) * time.Second
	}
	if o.SlowStart > 0 && r.Intn(o.SlowStart) == 0 {
		f.StartDelay = time.Duration(20+r.Intn(50)) * time.Second
	}
	f.TermFlap = o.TermFlap > 0 && r.Intn(o.TermFlap) == 0
	if o.Sidecar > 0 && r.Intn(o.Sidecar) == 0 {
		f.Sidecar = []string{"ok", "err"}[r.Intn(2)]
		f.Flap = false
	}
	return f
}

type kubelet struct {
	w       *World
	opt     KubeletOptions
	flapped map[string]int // 0 none, 1 statuses removed, 2 restored; 11 terminal status wiped, 12 restored
	saved   map[string]*corev1.PodStatus
}

func newKubelet(w *World, opt KubeletOptions) *kubelet {
	if opt.Seed == 0 {
		opt.Seed = w.Opt.Seed
	}
	return &kubelet{w: w, opt: opt, flapped: map[string]int{}, saved: map[string]*corev1.PodStatus{}}
}

func managed(p *corev1.Pod) bool {
	// only Pods created by the job controller are run by the simulated node; foreign Pods just sit there
	_, ok := p.Labels["execution.furiko.io/job-uid"]
	return ok
}

// nextAction returns what the node would do next with the Pod and when.
func (k *kubelet) nextAction(p *corev1.Pod) (string, time.Time, bool) {
	if !managed(p) {
		return "", time.Time{}, false
	}
	f := k.opt.FateOf(p.Name)
	terminal := p.Status.Phase == corev1.PodSucceeded || p.Status.Phase == corev1.PodFailed
	if p.DeletionTimestamp != nil {
		grace := int64(30)
		if p.DeletionGracePeriodSeconds != nil {
			grace = *p.DeletionGracePeriodSeconds
		}
		reqAt := p.DeletionTimestamp.Add(-time.Duration(grace) * time.Second)
		switch f.OnDelete {
		case "never":
			return "", time.Time{}, false
		case "late":
			reqAt = reqAt.Add(f.DieAfter)
		}
		// a container may still exit by itself while the Pod is terminating: a running one, or one
		// whose image pull finally succeeds right after the deletion was requested
		if f.ExitFirst != "" && !terminal && p.Spec.NodeName != "" {
			return "exit-" + f.ExitFirst, reqAt, true
		}
		// a terminal status stays observable for at least a second before the object goes away
		// (information that was destroyed before anyone could see it is not demanded back)
		for _, cs := range p.Status.ContainerStatuses {
			if t := cs.State.Terminated; t != nil && !t.FinishedAt.Add(time.Second).Before(reqAt) {
				reqAt = t.FinishedAt.Add(time.Second)
			}
		}
		return "remove", reqAt, true
	}
	if k.flapped[p.Name] == 11 {
		// the terminal status was wiped by a restarting node agent: it is reported again a second later
		at := k.w.Clk.Now()
		if st := k.saved[p.Name]; st != nil && len(st.ContainerStatuses) > 0 && st.ContainerStatuses[0].State.Terminated != nil {
			at = st.ContainerStatuses[0].State.Terminated.FinishedAt.Add(3 * time.Second)
		}
		return "termflap", at, true
	}
	if terminal {
		if f.TermFlap && k.flapped[p.Name] < 11 && len(p.Status.ContainerStatuses) > 0 && p.Status.ContainerStatuses[0].State.Terminated != nil {
			return "termflap", p.Status.ContainerStatuses[0].State.Terminated.FinishedAt.Add(2 * time.Second), true
		}
		return "", time.Time{}, false
	}
	switch {
	case p.Spec.NodeName == "":
		if f.SchedDelay < 0 {
			return "", time.Time{}, false
		}
		return "bind", p.CreationTimestamp.Add(f.SchedDelay), true
	case p.Status.Phase == "" || p.Status.Phase == corev1.PodPending:
		return "run", p.CreationTimestamp.Add(f.SchedDelay + f.StartDelay), true
	case p.Status.Phase == corev1.PodRunning:
		start := p.CreationTimestamp.Time
		if p.Status.StartTime != nil {
			start = p.Status.StartTime.Time
		}
		if f.Sidecar != "" && f.RunFor > time.Second {
			for _, cs := range p.Status.ContainerStatuses {
				if cs.Name == "helper" && cs.State.Running != nil {
					return "sidecar", start.Add(time.Second), true
				}
			}
		}
		if f.Flap && k.flapped[p.Name] < 2 {
			return "flap", start.Add(time.Second), true
		}
		if f.VanishAt > 0 && f.VanishAt < f.RunFor {
			return "vanish", start.Add(f.VanishAt), true
		}
		return "finish", start.Add(f.RunFor), true
	}
	return "", time.Time{}, false
}

func (k *kubelet) pods() []*corev1.Pod {
	var out []*corev1.Pod
	for _, o := range k.w.API.List(KPod) {
		out = append(out, o.(*corev1.Pod))
	}
	return out
}

// due lists Pods with an action that is due now.
func (k *kubelet) due() []string {
	var out []string
	now := k.w.Clk.Now()
	for _, p := range k.pods() {
		if _, at, ok := k.nextAction(p); ok && !at.After(now) {
			out = append(out, p.Namespace+"/"+p.Name)
		}
	}
	sort.Strings(out)
	return out
}

func (k *kubelet) nextTimer() (time.Time, bool) {
	var next time.Time
	for _, p := range k.pods() {
		if _, at, ok := k.nextAction(p); ok && (next.IsZero() || at.Before(next)) {
			next = at
		}
	}
	return next, !next.IsZero()
}

// Quiet reports whether the node has nothing left to do, ever (stuck Pods are not pending work).
func (k *kubelet) Quiet() bool {
	_, ok := k.nextTimer()
	return !ok
}

func (k *kubelet) step(nsname string) {
	ctx := context.Background()
	var p *corev1.Pod
	for _, q := range k.pods() {
		if q.Namespace+"/"+q.Name == nsname {
			p = q
		}
	}
	if p == nil {
		return
	}
	act, _, ok := k.nextAction(p)
	if !ok {
		return
	}
	k.w.trace("kubelet %s %s", act, p.Name)
	pods := k.w.Kubelet.Kubernetes().CoreV1().Pods(p.Namespace)
	now := metav1.NewTime(k.w.Clk.Now().Truncate(time.Second))
	f := k.opt.FateOf(p.Name)
	zero := int64(0)
	switch act {
	case "bind":
		p.Spec.NodeName = "node-1"
		_, _ = pods.Update(ctx, p, metav1.UpdateOptions{})
	case "run":
		p.Status.Phase = corev1.PodRunning
		p.Status.StartTime = &now
		p.Status.Conditions = []corev1.PodCondition{{Type: corev1.PodScheduled, Status: corev1.ConditionTrue}}
		p.Status.ContainerStatuses = []corev1.ContainerStatus{{Name: "c", State: corev1.ContainerState{Running: &corev1.ContainerStateRunning{StartedAt: now}}}}
		if f.Sidecar != "" {
			p.Status.ContainerStatuses = append([]corev1.ContainerStatus{{Name: "helper", State: corev1.ContainerState{Running: &corev1.ContainerStateRunning{StartedAt: now}}}}, p.Status.ContainerStatuses...)
		}
		_, _ = pods.UpdateStatus(ctx, p, metav1.UpdateOptions{})
	case "sidecar":
		// the helper container exits; the Pod stays Running because its main container still runs
		for i := range p.Status.ContainerStatuses {
			if cs := &p.Status.ContainerStatuses[i]; cs.Name == "helper" && cs.State.Running != nil {
				cs.State = corev1.ContainerState{Terminated: helperTerminated(f, cs.State.Running.StartedAt, now)}
			}
		}
		_, _ = pods.UpdateStatus(ctx, p, metav1.UpdateOptions{})
	case "flap":
		if k.flapped[p.Name] == 0 {
			k.flapped[p.Name] = 1
			p.Status.ContainerStatuses = nil
		} else {
			k.flapped[p.Name] = 2
			p.Status.ContainerStatuses = []corev1.ContainerStatus{{Name: "c", State: corev1.ContainerState{Running: &corev1.ContainerStateRunning{StartedAt: *p.Status.StartTime}}}}
		}
		_, _ = pods.UpdateStatus(ctx, p, metav1.UpdateOptions{})
	case "termflap":
		if k.flapped[p.Name] < 11 {
			// first the terminal status is remembered and wiped ...
			k.flapped[p.Name] = 11
			k.saved[p.Name] = p.Status.DeepCopy()
			p.Status.Phase = corev1.PodPending
			p.Status.ContainerStatuses = nil
		} else {
			// ... then reported again
			k.flapped[p.Name] = 12
			if st := k.saved[p.Name]; st != nil {
				p.Status = *st
			}
		}
		_, _ = pods.UpdateStatus(ctx, p, metav1.UpdateOptions{})
	case "finish", "exit-succ", "exit-fail":
		result := f.Result
		if act == "exit-succ" {
			result = "succ"
		} else if act == "exit-fail" {
			result = "fail"
		}
		if p.Status.StartTime == nil {
			p.Status.StartTime = &now
		}
		term := &corev1.ContainerStateTerminated{StartedAt: *p.Status.StartTime, FinishedAt: now, Reason: "Completed"}
		p.Status.Phase = corev1.PodSucceeded
		if result != "succ" {
			p.Status.Phase = corev1.PodFailed
			term.ExitCode = 1
			term.Reason = "Error"
			if result == "oom" {
				term.ExitCode = 137
				term.Reason = "OOMKilled"
			}
		}
		var helper *corev1.ContainerStatus
		for i := range p.Status.ContainerStatuses {
			if cs := p.Status.ContainerStatuses[i]; cs.Name == "helper" {
				if cs.State.Running != nil {
					cs.State = corev1.ContainerState{Terminated: helperTerminated(f, cs.State.Running.StartedAt, now)}
				}
				helper = &cs
			}
		}
		p.Status.ContainerStatuses = []corev1.ContainerStatus{{Name: "c", State: corev1.ContainerState{Terminated: term}}}
		if helper != nil {
			p.Status.ContainerStatuses = append([]corev1.ContainerStatus{*helper}, p.Status.ContainerStatuses...)
			if helper.State.Terminated != nil && helper.State.Terminated.ExitCode != 0 {
				p.Status.Phase = corev1.PodFailed // restartPolicy Never: one failed container fails the Pod
			}
		}
		_, _ = pods.UpdateStatus(ctx, p, metav1.UpdateOptions{})
	case "remove":
		_ = pods.Delete(ctx, p.Name, metav1.DeleteOptions{GracePeriodSeconds: &zero})
	case "vanish":
		// the node disappears with the Pod: an outside actor force-deletes the object
		_ = k.w.GC.Kubernetes().CoreV1().Pods(p.Namespace).Delete(ctx, p.Name, metav1.DeleteOptions{GracePeriodSeconds: &zero})
	}
}

func helperTerminated(f Fate, started, now metav1.Time) *corev1.ContainerStateTerminated {
	t := &corev1.ContainerStateTerminated{StartedAt: started, FinishedAt: now, Reason: "Completed"}
	if f.Sidecar == "err" {
		t.ExitCode, t.Reason = 1, "Error"
	}
	return t
}

// cronRecorder is a no-op croncontroller.Recorder.
type cronRecorder struct{}

var _ croncontroller.Recorder = cronRecorder{}

func (cronRecorder) CreatedJob(context.Context, *execution.JobConfig, *execution.Job) {}
func (cronRecorder) CreateJobFailed(context.Context, *execution.JobConfig, *execution.Job, string) {
}
func (cronRecorder) SkippedJobSchedule(context.Context, *execution.JobConfig, time.Time, string) {}
