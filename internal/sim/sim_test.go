package sim

import (
	"math/rand"
	"os"
	"strconv"
	"strings"
	"testing"
	"time"
)

func envInt(k string, d int) int {
	if v := os.Getenv(k); v != "" {
		n, _ := strconv.Atoi(v)
		return n
	}
	return d
}

func TestSmoke(t *testing.T) {
	n := envInt("N", 50)
	base := int64(envInt("SEED", 1))
	mode := os.Getenv("MODE")
	bad := map[string]int{}
	evals := map[string]int{}
	stats := map[string]int{}
	shown := 0
	start := time.Now()
	for i := 0; i < n; i++ {
		seed := base*100000 + int64(i)
		r := rand.New(rand.NewSource(seed))
		w := NewWorld(Options{Seed: seed, Mode: mode, MaxInFlight: 1 + r.Intn(3), Split: r.Intn(2) == 0,
			Kubelet: KubeletOptions{NeverSched: 12, NeverDie: 8, LateDie: 4, Flap: 6, ExitOnDelete: 4}})
		wl := Gen(r, Profile{MaxJobConfigs: 2, MinJobs: 1, MaxJobs: 6, OwnedBias: 60, MaxConcurrency: 2, Parallel: 50, MaxAttempts: 3, MaxRetryDelay: 12, KillPct: 25, DeletePct: 20, StartAfterPct: 30, ForeignPct: envInt("FOREIGN", 0)})
		w.Script(wl.Ops)
		w.Run()
		w.Mon.Fixpoint()
		for k, v := range w.Mon.Evals {
			evals[k] += v
		}
		for k, v := range w.Stat {
			stats[k] += v
		}
		seen := map[string]bool{}
		for _, v := range w.Mon.Viol {
			k := v.Prop + " " + v.Sig
			if !seen[k] {
				seen[k] = true
				bad[k]++
				if shown < envInt("SHOW", 10) {
					shown++
					t.Logf("seed=%d [%s] %s: %s", seed, strings.Join(wl.Desc, " "), k, v.Msg)
					if os.Getenv("TRACE") != "" {
						t.Log(strings.Join(w.Trace, "\n"))
					}
				}
			}
		}
		if len(w.Mon.Notes) > 0 && shown < 3 {
			t.Logf("notes: %v", w.Mon.Notes)
		}
	}
	t.Logf("cases=%d in %v evals=%v", n, time.Since(start), evals)
	t.Logf("stats=%v", stats)
	t.Logf("casesWithViolation=%v", bad)
}

func TestOne(t *testing.T) {
	seed := int64(envInt("SEED1", 100115))
	mode := os.Getenv("MODE")
	r := rand.New(rand.NewSource(seed))
	w := NewWorld(Options{Seed: seed, Mode: mode, MaxInFlight: 1 + r.Intn(3), Split: r.Intn(2) == 0, TraceCap: 5000,
		Kubelet: KubeletOptions{NeverSched: 12, NeverDie: 8, LateDie: 4, Flap: 6, ExitOnDelete: 4}})
	wl := Gen(r, Profile{MaxJobConfigs: 2, MinJobs: 1, MaxJobs: 6, OwnedBias: 60, MaxConcurrency: 2, Parallel: 50, MaxAttempts: 3, MaxRetryDelay: 12, KillPct: 25, DeletePct: 20, StartAfterPct: 30, ForeignPct: envInt("FOREIGN", 0)})
	w.Script(wl.Ops)
	w.Run()
	w.Mon.Fixpoint()
	t.Log(strings.Join(w.Trace, "\n"))
	for _, v := range w.Mon.Viol {
		t.Logf("%s %s: %s", v.Prop, v.Sig, v.Msg)
	}
}
