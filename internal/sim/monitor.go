package sim

import (
	"fmt"
	"hash/fnv"
	"regexp"
	"sort"
	"strconv"
	"strings"
	"time"

	corev1 "k8s.io/api/core/v1"
	apiequality "k8s.io/apimachinery/pkg/api/equality"
	metav1 "k8s.io/apimachinery/pkg/apis/meta/v1"
	"k8s.io/apimachinery/pkg/runtime"

	configv1alpha1 "github.com/furiko-io/furiko/apis/config/v1alpha1"
	execution "github.com/furiko-io/furiko/apis/execution/v1alpha1"
)

const (
	Finalizer       = "execution.furiko.io/delete-dependents-finalizer"
	LabelJCUID      = "execution.furiko.io/job-config-uid"
	LabelJobUID     = "execution.furiko.io/job-uid"
	LabelIdxHash    = "execution.furiko.io/task-parallel-index-hash"
	LabelRetry      = "execution.furiko.io/task-retry-index"
	AnnAdmissionErr = "execution.furiko.io/admission-error"
	AnnScheduleTime = "execution.furiko.io/schedule-time"
)

// Violation is one refuted obligation observed by a monitor.
type Violation struct {
	Prop string
	Sig  string
	Msg  string
}

type podRec struct {
	Name, NS    string
	JobUID      string
	Idx         string
	Retry       int
	Created     time.Time
	ByCtrl      bool
	EverRunning bool
	Succeeded   bool
	LateSuccess bool      // it exited successfully only after its deletion had been requested (indeterminate: furiko may or may not get to see it)
	TerminalAt  time.Time // when the node reported a terminal phase
	FinishedAt  time.Time // container finishedAt written by the node
	DelReqAt    time.Time // first deletionTimestamp seen
	RemovedAt   time.Time
	Exists      bool
	Recorded    bool // some version of the Job's status listed this task
}

func (p *podRec) live() bool { return p.Exists && p.TerminalAt.IsZero() }

type jobRec struct {
	UID                   string
	Name, NS              string
	Versions              int
	UserEdited            bool
	UserEditedAfterFinish bool      // the user wrote to the Job's main resource after it had finished
	KillTS                time.Time // the kill time the user asked for (kept when the field is cleared later)
	KillCleared           bool
	Refused               bool // admission-error annotation written by the queue controller while unstarted
	RefusedBy             string
	StartedAt             time.Time
	FinishedAt            time.Time // clock reading when the finished condition was first persisted
	Removed               bool
	KillSetAt             time.Time
	LastObj               *execution.Job
	JCUID                 string
	Pods                  []*podRec
	ForeignHit            bool // a non-owned object occupies one of its task names
	CtrlRV                int  // resourceVersion of the latest version written by the job controller itself
	// the user removed the delete-dependents finalizer: whatever happens to the tasks afterwards is the user's doing
	FinalizerStripped bool
}

// Monitors holds the online oracles of all simulation-decided properties.
type Monitors struct {
	w     *World
	Viol  []Violation
	Evals map[string]int
	pods  map[string]*podRec // ns/name
	jobs  map[string]*jobRec // uid
	// abstract trace hash
	trace uint64
	nEv   int
	// cron
	cronReq []CronRequest
	// enabled property monitors (nil: all)
	Only map[string]bool
	// set of schedule keys (jc uid + time) seen created
	schedJobs map[string]string
	jcLast    map[string]*execution.JobConfig
	Notes     []string
	foreign   map[string]bool
	// cron: requests per key, scheduled JobConfigs with their reference stream
	reqCount        map[string]int
	DupRequests     int // schedule keys requested at least twice (any incarnation, incl. injected duplicates)
	cronJCs         map[string]*cronJC
	bootSnap        map[int]map[string]bootJC // incarnation -> JobConfig key -> persisted state at boot
	queueSyncBehind map[string]bool           // JobConfig key -> the latest queue sync ran ahead of the store notifications
	queueSyncCursor map[string]int            // JobConfig key -> Job cache position when the latest queue sync started
	freeSeq         map[string]int            // JobConfig uid -> log position of the latest event that freed capacity
	lastSchedHWM    map[string]time.Time      // JobConfig uid -> latest status.lastScheduled ever persisted
	Injecting       bool                      // the harness itself is re-delivering a schedule request
	// JobConfigs (uid) for which a start write was applied but reported as a timeout to the queue controller
	timedOutStart map[string]bool
	// submittedStartAfter: ns/name -> the startAfter of the user's last accepted create/update request
	submittedStartAfter map[string]time.Time
	// staleTombstone: JobConfig uid -> this process was told about the disappearance of a Job it had started
	// (and counted) through a relist tombstone whose last known state is still the unstarted Job
	staleTombstone map[string]bool
	// non-triviality measures
	Retries          int
	MultiAttemptJobs int
	MaxVersions      int
	MaxJCVersions    int
	jcVersions       map[string]int
}

// CronRequest is one schedule request observed on the cron queue.
type CronRequest struct {
	Key  string
	At   time.Time // clock reading when requested
	Inc  int
	Tick int
}

func newMonitors(w *World) *Monitors {
	return &Monitors{w: w, Evals: map[string]int{}, pods: map[string]*podRec{}, jobs: map[string]*jobRec{}, schedJobs: map[string]string{}, jcLast: map[string]*execution.JobConfig{}}
}

func (m *Monitors) fail(prop, sig, f string, a ...interface{}) {
	if m.Only != nil && !m.Only[prop] {
		return
	}
	if len(m.Viol) > 50 {
		return
	}
	m.Viol = append(m.Viol, Violation{Prop: prop, Sig: sig, Msg: m.w.T() + " " + fmt.Sprintf(f, a...)})
	m.w.trace("VIOLATION %s %s: %s", prop, sig, fmt.Sprintf(f, a...))
}

func (m *Monitors) abstract(s string) {
	h := fnv.New64a()
	var b [8]byte
	for i := 0; i < 8; i++ {
		b[i] = byte(m.trace >> (8 * i))
	}
	h.Write(b[:])
	h.Write([]byte(s))
	m.trace = h.Sum64()
	m.nEv++
}

// cronJC is what the monitor knows about a scheduled JobConfig: its "a/N * * * * * *" expression
// (every N seconds from second a of each minute) and the window in which it was enabled.
type cronJC struct {
	UID, NS, Name string
	A, N          int
	Policy        execution.ConcurrencyPolicy
	EnabledAt     time.Time
	StopAt        time.Time
}

var cronRe = regexp.MustCompile(`^(\d+)/(\d+) \* \* \* \* \* \*$`)

func cronOf(jc *execution.JobConfig) (a, n int, ok bool) {
	s := jc.Spec.Schedule
	if s == nil || s.Cron == nil || s.Disabled || jc.DeletionTimestamp != nil {
		return 0, 0, false
	}
	mm := cronRe.FindStringSubmatch(s.Cron.Expression)
	if mm == nil {
		return 0, 0, false
	}
	a, _ = strconv.Atoi(mm[1])
	n, _ = strconv.Atoi(mm[2])
	return a, n, n > 0
}

func (m *Monitors) trackCron(ev *Event, jc *execution.JobConfig) {
	if m.cronJCs == nil {
		m.cronJCs = map[string]*cronJC{}
	}
	now := m.w.Clk.Now()
	uid := string(jc.UID)
	a, n, ok := cronOf(jc)
	if ev.Type == Deleted {
		ok = false
	}
	c := m.cronJCs[uid]
	switch {
	case c == nil && ok:
		m.cronJCs[uid] = &cronJC{UID: uid, NS: jc.Namespace, Name: jc.Name, A: a, N: n, Policy: jc.Spec.Concurrency.Policy, EnabledAt: now}
	case c != nil && c.StopAt.IsZero() && (!ok || a != c.A || n != c.N):
		c.StopAt = now // schedule disabled / removed / changed: the reference stream of this record ends here
	}
}

// onCronRequest observes every schedule request put on the cron queue.
func (m *Monitors) onCronRequest(inc *Incarnation, item interface{}) {
	if m.reqCount == nil {
		m.reqCount = map[string]int{}
	}
	k := fmt.Sprint(item)
	m.reqCount[k]++
	m.Evals["C02_requests"]++
	if m.reqCount[k] == 2 {
		m.DupRequests++
	}
	m.cronReq = append(m.cronReq, CronRequest{Key: k, At: m.w.Clk.Now(), Inc: inc.N})
	if m.Injecting || inc.N < 2 {
		return
	}
	// C04 end to end: requests of a restarted controller
	if i := strings.LastIndex(k, "."); i > 0 {
		u, err := strconv.ParseInt(k[i+1:], 10, 64)
		b, ok := m.bootSnap[inc.N][k[:i]]
		if err != nil || !ok {
			return
		}
		// the JobConfig must still be the same object
		same := false
		for _, o := range m.w.API.List(KJobConfig) {
			if jc := o.(*execution.JobConfig); jc.Namespace+"/"+jc.Name == k[:i] && string(jc.UID) == b.UID {
				same = true
			}
		}
		if !same {
			return
		}
		m.Evals["C04"]++
		t := time.Unix(u, 0)
		if !b.LastScheduled.IsZero() && !t.After(b.LastScheduled) {
			m.fail("C04", "re-requested-at-or-before-lastScheduled", "restarted controller %s requests %s for %v although lastScheduled was %v when it started", inc.Actor, k[:i], t.Sub(Epoch), b.LastScheduled.Sub(Epoch))
		}
		if b.LastScheduled.IsZero() && t.Before(inc.BootAt.Truncate(time.Second)) {
			m.fail("C04", "never-scheduled-back-scheduled", "restarted controller %s back-schedules %s for %v although it was never scheduled before the start at %v", inc.Actor, k[:i], t.Sub(Epoch), inc.BootAt.Sub(Epoch))
		}
	}
}

// CronRequests returns every schedule request observed so far.
func (m *Monitors) CronRequests() []CronRequest { return m.cronReq }

// MissingSchedules lists, for every Allow/Enqueue JobConfig with an "a/N" schedule, the due
// schedule times strictly inside its determinate window for which no Job was ever created.
// Times within one cron step after creation (the first tick may come before or after the
// Add is delivered) and at or after the disabling instant are indeterminate and not demanded.
func (m *Monitors) MissingSchedules() (due int, missing []string) {
	if m.w.Stat["crashes"] > 0 {
		return 0, nil // after a crash a never-scheduled JobConfig is legitimately not back-scheduled
	}
	end := m.w.lastTick
	var uids []string
	for uid := range m.cronJCs {
		uids = append(uids, uid)
	}
	sort.Strings(uids)
	for _, uid := range uids {
		c := m.cronJCs[uid]
		if c.Policy == execution.ConcurrencyPolicyForbid {
			continue
		}
		from := c.EnabledAt.Add(m.w.Opt.CronStep)
		to := c.StopAt
		if to.IsZero() || to.After(end) {
			to = end
		}
		for t := from.Truncate(time.Second).Add(time.Second); t.Before(to); t = t.Add(time.Second) {
			if sec := t.UTC().Second(); sec < c.A || (sec-c.A)%c.N != 0 {
				continue
			}
			due++
			if _, ok := m.schedJobs[uid+"@"+strconv.FormatInt(t.Unix(), 10)]; !ok {
				missing = append(missing, fmt.Sprintf("%s/%s@%v", c.NS, c.Name, t.Sub(Epoch)))
			}
		}
	}
	return due, missing
}

// timedOutSuffix classifies counter violations that follow a start write which was applied but
// reported as a timeout (known finding: the queue controller rolls the counter back although the Job runs).
func (m *Monitors) timedOutSuffix(jcuid string) string {
	if m.timedOutStart[jcuid] {
		return ":after-timed-out-start-write"
	}
	if m.staleTombstone[jcuid] {
		return ":after-stale-tombstone"
	}
	return ""
}

// NoteStartAfter records the startAfter a user asked for when creating or editing a Job (accepted requests only).
func (m *Monitors) NoteStartAfter(ns, name string, t time.Time) {
	if m.submittedStartAfter == nil {
		m.submittedStartAfter = map[string]time.Time{}
	}
	m.submittedStartAfter[ns+"/"+name] = t
}

// onTombstone is told about every object a relist found to have disappeared, with the cache's last copy of it.
func (m *Monitors) onTombstone(kind Kind, cached interface{}) {
	j, ok := cached.(*execution.Job)
	if kind != KJob || !ok {
		return
	}
	jr := m.jobs[string(j.UID)]
	if jr == nil || jr.JCUID == "" {
		return
	}
	m.Evals["job_tombstones"]++
	if j.Status.StartTime.IsZero() && !jr.StartedAt.IsZero() {
		if m.staleTombstone == nil {
			m.staleTombstone = map[string]bool{}
		}
		m.staleTombstone[jr.JCUID] = true
		m.Evals["job_tombstones_with_unstarted_copy_of_started_job"]++
	}
}

// TraceHash identifies the abstract trace (actors, verbs, kinds and state classes with names and times erased).
func (m *Monitors) TraceHash() string { return strconv.FormatUint(m.trace, 36) }

func ownerJobUID(p *corev1.Pod) string {
	for _, r := range p.OwnerReferences {
		if r.Controller != nil && *r.Controller && r.Kind == "Job" {
			return string(r.UID)
		}
	}
	return ""
}

// onBoot snapshots, for a restarted controller, what is persisted about every JobConfig at that
// moment: C04 forbids a later schedule request at or before the recorded last schedule time, and
// any back-scheduling of a JobConfig that was never scheduled.
func (m *Monitors) onBoot(inc *Incarnation) {
	m.staleTombstone = nil // the new process rebuilds its counters from the API
	if m.bootSnap == nil {
		m.bootSnap = map[int]map[string]bootJC{}
	}
	snap := map[string]bootJC{}
	for _, o := range m.w.API.List(KJobConfig) {
		jc := o.(*execution.JobConfig)
		b := bootJC{UID: string(jc.UID)}
		if jc.Status.LastScheduled != nil {
			b.LastScheduled = jc.Status.LastScheduled.Time
		}
		if h := m.lastSchedHWM[string(jc.UID)]; h.After(b.LastScheduled) {
			b.LastScheduled = h
		}
		snap[jc.Namespace+"/"+jc.Name] = b
	}
	m.bootSnap[inc.N] = snap
}

type bootJC struct {
	UID           string
	LastScheduled time.Time // the latest last-scheduled time ever persisted for the JobConfig (a high-water mark: C15 forbids it to decrease)
}

func (m *Monitors) onCrash(inc *Incarnation) {}

// onTaskStart notes, for a sync of the per-JobConfig queue reconciler, whether the active-job
// store (the first listener of the Job informer) still had undelivered notifications: the
// sync then reads a counter that is about to change, and nothing wakes the queue afterwards.
func (m *Monitors) onTaskStart(t *Task) {
	if t.Ctl.Name != "queue-perconfig" {
		return
	}
	if m.queueSyncBehind == nil {
		m.queueSyncBehind = map[string]bool{}
	}
	// behind = the store has not yet handled an event that is already in the cache this sync reads
	m.queueSyncBehind[fmt.Sprint(t.Item)] = t.Inc.Ctx.Inf.Job.ListenerPending(0) > 0
	if m.queueSyncCursor == nil {
		m.queueSyncCursor = map[string]int{}
	}
	m.queueSyncCursor[fmt.Sprint(t.Item)] = t.Inc.Ctx.Inf.Job.Cursor()
}
// onTaskDone: whatever a reconcile read from the informer caches is still what the informers stored there.
func (m *Monitors) onTaskDone(t *Task) {
	if m.w.Inc == nil {
		return
	}
	prop := map[Kind]string{KJob: "C11", KJobConfig: "C15", KPod: "C09"}
	for _, inf := range m.w.Inc.Ctx.Inf.All() {
		m.Evals["cache_integrity"]++
		for _, d := range inf.Mutated() {
			if len(d) > 900 {
				d = d[:900] + "..."
			}
			m.fail(prop[inf.Kind], "informer-cache-object-mutated", "after the %s reconcile of %v the %s informer cache holds an object that differs from what the informer stored (a controller wrote through a pointer it got from the lister; the change exists in this process only): %s", t.Ctl.Name, t.Item, inf.Kind, d)
		}
	}
}
func (m *Monitors) beforeTick()        {}
func (m *Monitors) afterTick()         {}

func (m *Monitors) nextCronDue() (time.Time, bool) {
	// scheduled JobConfigs make the next whole CronStep boundary a timer
	has := false
	for _, o := range m.w.API.List(KJobConfig) {
		jc := o.(*execution.JobConfig)
		if s := jc.Spec.Schedule; s != nil && s.Cron != nil && !s.Disabled {
			has = true
		}
	}
	if !has {
		return time.Time{}, false
	}
	step := m.w.Opt.CronStep
	now := m.w.Clk.Now()
	next := now.Truncate(step).Add(step)
	return next, true
}

// ---------------------------------------------------------------------------
// truth helpers (called under the API lock from commit hooks)

func (m *Monitors) jobByUIDLocked(uid string) *execution.Job {
	for _, o := range m.w.API.peek(KJob) {
		if j := o.(*execution.Job); string(j.UID) == uid {
			return j
		}
	}
	return nil
}

func (m *Monitors) jcByUIDLocked(uid string) *execution.JobConfig {
	for _, o := range m.w.API.peek(KJobConfig) {
		if jc := o.(*execution.JobConfig); string(jc.UID) == uid {
			return jc
		}
	}
	return nil
}

func isActive(j *execution.Job) bool {
	return !j.Status.StartTime.IsZero() && !j.Status.Phase.IsTerminal()
}
func isQueued(j *execution.Job) bool {
	return j.Status.StartTime.IsZero() && !j.Status.Phase.IsTerminal()
}

// numIndexes and the per-index identity of a job (independent of furiko's expansion code: only counts matter here).
func numIndexes(j *execution.Job) int {
	if j.Spec.Template == nil || j.Spec.Template.Parallelism == nil {
		return 1
	}
	p := j.Spec.Template.Parallelism
	switch {
	case p.WithCount != nil:
		return int(*p.WithCount)
	case len(p.WithKeys) > 0:
		return len(p.WithKeys)
	case len(p.WithMatrix) > 0:
		n := 1
		for _, v := range p.WithMatrix {
			n *= len(v)
		}
		return n
	}
	return 1
}

func isAny(j *execution.Job) bool {
	return j.Spec.Template != nil && j.Spec.Template.Parallelism != nil && j.Spec.Template.Parallelism.CompletionStrategy == execution.AnySuccessful
}

func maxAttempts(j *execution.Job) int {
	if j.Spec.Template != nil && j.Spec.Template.MaxAttempts != nil {
		return int(*j.Spec.Template.MaxAttempts)
	}
	return 1
}

func retryDelay(j *execution.Job) time.Duration {
	if j.Spec.Template != nil && j.Spec.Template.RetryDelaySeconds != nil {
		return time.Duration(*j.Spec.Template.RetryDelaySeconds) * time.Second
	}
	return 0
}

// truth computes from the Pod history whether the completion strategy is satisfied / unsatisfiable.
// A success that happened only while the Pod was being deleted is indeterminate: it supports a
// reported Success (it really succeeded), but it is not demanded - the attempt was given up and
// may count as failed (C12), and the object may be gone before any sync could see the result.
func (m *Monitors) truth(jr *jobRec, j *execution.Job) (satisfied, unsatisfiable bool) {
	// lenient reading, used to justify what furiko reported or did: a late success may count
	// as a success (for "Succeeded") and may count as a failure (for "Failed")
	satisfied, _ = m.truthMode(jr, j, true)
	_, unsatisfiable = m.truthMode(jr, j, false)
	return
}

// truthDemanded is the strict reading, used for what must have been reported at the fixpoint.
func (m *Monitors) truthDemanded(jr *jobRec, j *execution.Job) (satisfied, unsatisfiable bool) {
	satisfied, _ = m.truthMode(jr, j, false)
	_, unsatisfiable = m.truthMode(jr, j, true)
	return
}

func (m *Monitors) truthMode(jr *jobRec, j *execution.Job, lateCounts bool) (satisfied, unsatisfiable bool) {
	n := numIndexes(j)
	succ := map[string]bool{}
	count := map[string]int{}
	live := map[string]bool{}
	for _, r := range jr.Pods {
		count[r.Idx]++
		if r.Succeeded && (lateCounts || !r.LateSuccess) {
			succ[r.Idx] = true
		}
		if r.live() {
			live[r.Idx] = true
		}
	}
	exhausted := 0
	for idx, c := range count {
		if !succ[idx] && !live[idx] && c >= maxAttempts(j) {
			exhausted++
		}
	}
	if isAny(j) {
		return len(succ) > 0, exhausted >= n
	}
	return len(succ) >= n, exhausted > 0
}

// ---------------------------------------------------------------------------
// commit hook

func (m *Monitors) onCommit(ev *Event) {
	switch ev.Kind {
	case KPod:
		m.onPod(ev)
	case KJob:
		m.onJob(ev)
	case KJobConfig:
		m.onJobConfig(ev)
	}
}

func podClass(p *corev1.Pod) string {
	s := string(p.Status.Phase)
	if p.DeletionTimestamp != nil {
		s += "+del"
	}
	if p.Spec.NodeName == "" {
		s += "+unsched"
	}
	return s
}

func (m *Monitors) onPod(ev *Event) {
	now := m.w.Clk.Now()
	p := ev.Object.(*corev1.Pod)
	k := p.Namespace + "/" + p.Name
	m.abstract(fmt.Sprintf("%s|%s|pod|%s|%s", actorClass(ev.Actor), ev.Verb, ev.Type, podClass(p)))
	juid := p.Labels[LabelJobUID]
	switch ev.Type {
	case Added:
		if !isCtrl(ev.Actor) || juid == "" {
			// a foreign object: remember it so that adoption can be judged
			m.pods[k] = &podRec{Name: p.Name, NS: p.Namespace, JobUID: "", Created: now, Exists: true}
			return
		}
		m.podCreated(ev, p, juid)
	case Modified:
		rec := m.pods[k]
		if rec == nil {
			return
		}
		if ev.Verb == "delete" && isCtrl(ev.Actor) {
			m.podDeleted(&Call{Actor: ev.Actor, Verb: "delete", Kind: KPod, NS: p.Namespace, Name: p.Name, Force: ev.Force}, ev.Old.(*corev1.Pod))
		}
		if p.Status.Phase == corev1.PodRunning {
			rec.EverRunning = true
		}
		if (p.Status.Phase == corev1.PodSucceeded || p.Status.Phase == corev1.PodFailed) && rec.TerminalAt.IsZero() {
			rec.TerminalAt = now
			rec.Succeeded = p.Status.Phase == corev1.PodSucceeded
			rec.LateSuccess = rec.Succeeded && (p.DeletionTimestamp != nil || !rec.DelReqAt.IsZero())
			for _, cs := range p.Status.ContainerStatuses {
				if cs.State.Terminated != nil {
					if t := cs.State.Terminated.FinishedAt.Time; t.After(rec.FinishedAt) {
						rec.FinishedAt = t
					}
					if cs.State.Terminated.Reason == "OOMKilled" {
						rec.Succeeded = false
					}
				}
			}
		}
		if p.DeletionTimestamp != nil && rec.DelReqAt.IsZero() {
			rec.DelReqAt = now
		}
	case Deleted:
		if ev.Verb == "delete" && isCtrl(ev.Actor) {
			m.podDeleted(&Call{Actor: ev.Actor, Verb: "delete", Kind: KPod, NS: p.Namespace, Name: p.Name, Force: ev.Force}, ev.Old.(*corev1.Pod))
		}
		if rec := m.pods[k]; rec != nil {
			rec.RemovedAt = now
			rec.Exists = false
		}
	}
}

func actorClass(a string) string {
	if isCtrl(a) {
		return "ctrl"
	}
	return a
}

// viewJob returns the Job object the given task read from its cache.
func viewJob(t *Task, ns, name string) *execution.Job {
	if t == nil {
		return nil
	}
	if e, ok := t.View["jobs/"+ns+"/"+name]; ok && e.Found {
		j, _ := e.Obj.(*execution.Job)
		return j
	}
	return nil
}

func viewPod(t *Task, ns, name string) (*corev1.Pod, bool) {
	if t == nil {
		return nil, false
	}
	if e, ok := t.View["pods/"+ns+"/"+name]; ok {
		if !e.Found {
			return nil, true
		}
		p, _ := e.Obj.(*corev1.Pod)
		return p, true
	}
	return nil, false
}

// podCreated judges C08 (and parts of C06/C09/C12) at the creation of a task by a controller.
func (m *Monitors) podCreated(ev *Event, p *corev1.Pod, juid string) {
	now := m.w.Clk.Now()
	idx := p.Labels[LabelIdxHash]
	retry, _ := strconv.Atoi(p.Labels[LabelRetry])
	rec := &podRec{Name: p.Name, NS: p.Namespace, JobUID: juid, Idx: idx, Retry: retry, Created: now, ByCtrl: true, Exists: true}
	m.pods[p.Namespace+"/"+p.Name] = rec
	jr := m.jobs[juid]
	j := m.jobByUIDLocked(juid)
	m.Evals["C08"]++
	if jr != nil && j == nil && jr.FinalizerStripped {
		return // the user removed the Job by force: a reconcile on a cached copy may still act on it; the garbage collector owns the Pod now
	}
	if jr == nil || j == nil {
		m.fail("C08", "create-for-missing-job", "task %s created for a Job (uid %s) that does not exist", p.Name, juid)
		return
	}
	if ownerJobUID(p) != juid {
		m.fail("C08", "owner-mismatch", "task %s labelled for job uid %s but controlled by %q", p.Name, juid, ownerJobUID(p))
	}
	prev := 0
	var lastFinish time.Time
	forgotten := false
	for _, r := range jr.Pods {
		if r.Idx != idx {
			continue
		}
		prev++
		if !r.Recorded && !r.Exists {
			forgotten = true // an attempt that was never recorded in the status and is gone: nothing remembers it
		}
		if r.live() {
			m.fail("C08", "second-live-task", "task %s created while %s of the same index is neither finished nor gone", p.Name, r.Name)
			m.fail("C09", "second-task-for-attempt", "task %s created while %s of the same index is neither finished nor gone (a lost record must lead to adoption, not to a second task)", p.Name, r.Name)
		}
		if r.Succeeded {
			// stable fact; judged on what the reconcile could know: its view or the persisted status
			if m.viewKnowsSucceeded(m.w.current, j, r) {
				m.fail("C08", "create-after-index-succeeded", "task %s created although %s of the same index succeeded (and the reconcile had seen it)", p.Name, r.Name)
			}
		}
		f := r.FinishedAt
		if f.IsZero() {
			f = r.RemovedAt
		}
		if f.After(lastFinish) {
			lastFinish = f
		}
	}
	if retry >= 1 {
		m.Retries++
	}
	// Did the creating reconcile act on a cached Job that predates the job controller's own latest write?
	// (Then tasks recorded by that write - and deleted since - are unknown to it: known finding "stale-job-view".)
	staleSuffix := ""
	if sv := viewJob(m.w.current, j.Namespace, j.Name); sv != nil && string(sv.UID) == juid {
		if rv, _ := strconv.Atoi(sv.ResourceVersion); rv < jr.CtrlRV {
			staleSuffix = ":stale-job-view"
		}
	}
	if retry != prev {
		sig := "retry-numbering" + staleSuffix
		if forgotten {
			sig = "retry-numbering:unrecorded-task:forgotten-attempt"
		}
		m.fail("C08", sig, "task %s has retry number %d but %d tasks were created for this index before", p.Name, retry, prev)
	}
	if retry >= maxAttempts(j) {
		m.fail("C08", "too-many-attempts", "task %s has retry number %d with maxAttempts %d", p.Name, retry, maxAttempts(j))
	}
	// API timestamps have one-second resolution (the controller's notion of the finish time is truncated)
	lastFinish = lastFinish.Truncate(time.Second)
	if prev > 0 && !lastFinish.IsZero() && now.Before(lastFinish.Add(retryDelay(j))) {
		sig := "retry-too-early" + staleSuffix
		if forgotten {
			sig = "retry-too-early:unrecorded-task:forgotten-attempt"
		}
		m.fail("C08", sig, "task %s created at %v, before previous attempt's finish %v + retryDelay %v", p.Name, now.Sub(Epoch), lastFinish.Sub(Epoch), retryDelay(j))
	}
	// gates, on the view of the creating reconcile (falling back to truth for stable facts)
	vj := viewJob(m.w.current, j.Namespace, j.Name)
	if vj != nil && string(vj.UID) == juid {
		if vj.Spec.KillTimestamp != nil {
			m.fail("C08", "create-after-kill", "task %s created although the Job (as read by the reconcile) has a kill timestamp", p.Name)
		}
		if _, ok := vj.Annotations[AnnAdmissionErr]; ok {
			m.fail("C08", "create-after-admission-error", "task %s created although the Job (as read) has an admission error", p.Name)
		}
		if vj.DeletionTimestamp != nil {
			m.fail("C08", "create-while-deleting", "task %s created although the Job (as read) is being deleted", p.Name)
		}
		if vj.Status.Condition.Finished != nil {
			sfx := ""
			if m.regressedTaskView(m.w.current, j) {
				sfx = ":pod-cache-behind-status" // this very sync is about to record a terminated task as unfinished again
			}
			m.fail("C08", "create-after-finished"+sfx, "task %s created although the Job (as read) is finished (%s)", p.Name, vj.Status.Condition.Finished.Result)
		}
		if vj.Status.StartTime.IsZero() {
			m.fail("C07", "task-before-start", "task %s created for a Job that (as read) has not been started", p.Name)
		}
		if sat, unsat := m.viewDecided(m.w.current, vj); sat || unsat {
			if staleSuffix == "" && m.regressedTaskView(m.w.current, j) {
				staleSuffix = ":pod-cache-behind-status"
			}
			m.fail("C08", "create-after-complete"+staleSuffix, "task %s created although the strategy was already decided in what the reconcile read (satisfied=%v unsatisfiable=%v)", p.Name, sat, unsat)
		}
	}
	if jr.KillCleared && !jr.KillTS.IsZero() && !now.Before(jr.KillTS) {
		m.fail("C12", "task-created-after-kill-time-passed", "task %s created at %v although the Job's kill time %v had passed (the kill timestamp was removed from the spec afterwards)", p.Name, now.Sub(Epoch), jr.KillTS.Sub(Epoch))
	}
	if jr.Refused {
		m.fail("C06", "refused-job-ran", "task %s created for Job %s which was refused admission by the queue controller", p.Name, j.Name)
	}
	jr.Pods = append(jr.Pods, rec)
}

// viewKnowsSucceeded: did the reconcile see (cache) or could it read (persisted status it read) that task r succeeded?
func (m *Monitors) viewKnowsSucceeded(t *Task, j *execution.Job, r *podRec) bool {
	if vp, ok := viewPod(t, r.NS, r.Name); ok && vp != nil && vp.Status.Phase == corev1.PodSucceeded {
		return true
	}
	if vj := viewJob(t, j.Namespace, j.Name); vj != nil {
		for _, ref := range vj.Status.Tasks {
			if ref.Name == r.Name && ref.Status.Result == execution.TaskSucceeded {
				return true
			}
		}
	}
	return false
}

// viewDecided computes, from the Job version and the Pods a reconcile read, whether the strategy is decided.
func (m *Monitors) viewDecided(t *Task, vj *execution.Job) (sat, unsat bool) {
	type st struct {
		succ     bool
		finished int
		live     bool
	}
	per := map[string]*st{}
	get := func(k string) *st {
		if per[k] == nil {
			per[k] = &st{}
		}
		return per[k]
	}
	seen := map[string]bool{}
	// pods read from the cache
	if t != nil {
		for k, e := range t.View {
			if !strings.HasPrefix(k, "pods/") || !e.Found {
				continue
			}
			p, _ := e.Obj.(*corev1.Pod)
			if p == nil || p.Labels[LabelJobUID] != string(vj.UID) {
				continue
			}
			seen[p.Name] = true
			s := get(p.Labels[LabelIdxHash])
			switch p.Status.Phase {
			case corev1.PodSucceeded:
				s.succ = true
				s.finished++
			case corev1.PodFailed:
				s.finished++
			default:
				s.live = true
			}
		}
	}
	for _, ref := range vj.Status.Tasks {
		if seen[ref.Name] {
			continue
		}
		idx := idxOfTaskName(vj.Name, ref.Name)
		s := get(idx)
		if ref.Status.Result == execution.TaskSucceeded {
			s.succ = true
		}
		if !ref.FinishTimestamp.IsZero() {
			s.finished++
		} else {
			s.live = true
		}
	}
	n := numIndexes(vj)
	nsucc, nexh := 0, 0
	for _, s := range per {
		if s.succ {
			nsucc++
		} else if !s.live && s.finished >= maxAttempts(vj) {
			nexh++
		}
	}
	if isAny(vj) {
		return nsucc > 0, nexh >= n
	}
	return nsucc >= n, nexh > 0
}

// idxOfTaskName extracts the index hash from "<job>-<hash>-<retry>".
func idxOfTaskName(job, task string) string {
	s := strings.TrimPrefix(task, job+"-")
	if i := strings.LastIndex(s, "-"); i >= 0 {
		return s[:i]
	}
	return s
}

// ---------------------------------------------------------------------------
// calls (before apply): every Pod delete request of a controller must be justified (C12),
// every Job delete by a controller is a TTL deletion (C13).

func (m *Monitors) onCall(c *Call) {
	if !isCtrl(c.Actor) {
		return
	}
	switch {
	case c.Kind == KPod && c.Verb == "create":
		// C09: a Job that ended in AdmissionError is not retried - no further task create is even attempted
		if m.w.current != nil && m.w.current.Ctl.Name == "job" {
			for _, o := range m.w.API.peek(KJob) {
				j := o.(*execution.Job)
				if j.Namespace+"/"+j.Name == fmt.Sprint(m.w.current.Item) && j.Status.Phase == execution.JobAdmissionError && strings.HasPrefix(c.Name, j.Name+"-") {
					m.Evals["C09_retry_after_admission_error"]++
					m.fail("C09", "task-create-after-admission-error", "the job controller attempts to create task %s although Job %s has ended in AdmissionError (%q): the refusal is retried", c.Name, j.Name, j.Annotations[AnnAdmissionErr])
				}
			}
		}
		// a create that will hit an object not belonging to the reconciled Job
		if _, ok := m.w.API.peek(KPod)[key(c.NS, c.Name)]; ok && m.w.current != nil {
			rec := m.pods[c.NS+"/"+c.Name]
			for _, jr := range m.jobs {
				if !jr.Removed && jr.NS+"/"+jr.Name == fmt.Sprint(m.w.current.Item) && (rec == nil || rec.JobUID != jr.UID) {
					jr.ForeignHit = true
				}
			}
		}
	}
}

func (m *Monitors) jobCfg() *configv1alpha1.JobExecutionConfig {
	cfg, err := m.w.Cfg.Jobs()
	if err != nil {
		return &configv1alpha1.JobExecutionConfig{}
	}
	return cfg
}

// podDeleted judges an applied Pod delete request of a controller (p: the Pod before the request).
func (m *Monitors) podDeleted(c *Call, p *corev1.Pod) {
	now := m.w.Clk.Now()
	rec := m.pods[c.NS+"/"+c.Name]
	m.Evals["C12"]++
	if rec == nil || rec.JobUID == "" {
		m.fail("C09", "foreign-object-deleted", "controller deleted %s which it does not own", p.Name)
		return
	}
	jr := m.jobs[rec.JobUID]
	j := m.jobByUIDLocked(rec.JobUID)
	if jr == nil {
		return
	}
	if j == nil {
		j = jr.LastObj // the Job is gone: cleaning up its Pods is what C13 wants
		return
	}
	t := m.w.current
	cfg := m.jobCfg()
	vp, sawPod := viewPod(t, c.NS, c.Name)
	vj := viewJob(t, j.Namespace, j.Name)
	if vj == nil {
		vj = j
	}
	if c.Force && p.DeletionTimestamp != nil {
		var timeout time.Duration
		if cfg.ForceDeleteTaskTimeoutSeconds != nil {
			timeout = time.Duration(*cfg.ForceDeleteTaskTimeoutSeconds) * time.Second
		}
		switch {
		case timeout <= 0:
			m.fail("C12", "force-delete-disabled", "task %s force-deleted although force deletion is disabled (timeout %v)", p.Name, timeout)
		case j.Spec.Template != nil && j.Spec.Template.ForbidTaskForceDeletion:
			m.fail("C12", "force-delete-forbidden", "task %s force-deleted although the Job forbids force deletion", p.Name)
		case now.Before(p.DeletionTimestamp.Add(timeout)):
			m.fail("C12", "force-delete-early", "task %s force-deleted at %v, before deletionTimestamp %v + %v", p.Name, now.Sub(Epoch), p.DeletionTimestamp.Sub(Epoch), timeout)
		}
		return
	}
	if c.Force {
		m.fail("C12", "force-delete-not-terminating", "task %s force-deleted although it was not terminating", p.Name)
		return
	}
	var reasons []string
	// J1 pending timeout
	var pt time.Duration
	if cfg.DefaultPendingTimeoutSeconds != nil {
		pt = time.Duration(*cfg.DefaultPendingTimeoutSeconds) * time.Second
	}
	if j.Spec.Template != nil && j.Spec.Template.TaskPendingTimeoutSeconds != nil && *j.Spec.Template.TaskPendingTimeoutSeconds >= 0 {
		pt = time.Duration(*j.Spec.Template.TaskPendingTimeoutSeconds) * time.Second
	}
	if pt > 0 && !now.Before(p.CreationTimestamp.Add(pt)) {
		notRunning := !rec.EverRunning
		if sawPod && vp != nil {
			// judged on what the reconcile could know: the Pod it read, and the running
			// timestamp its own persisted status retains across status flaps
			notRunning = !podBegunRunning(vp)
			for _, ref := range vj.Status.Tasks {
				if ref.Name == p.Name && !ref.RunningTimestamp.IsZero() {
					notRunning = false
				}
			}
		}
		if notRunning {
			reasons = append(reasons, "pending-timeout")
			if rec.EverRunning {
				// justified by what the reconcile read, not by what was true: the Pod had begun running (or had
				// even finished) but the copy the controller works with is older than that. Everything judged
				// against the true outcomes of this Job's tasks afterwards follows from this.
				m.fail("C12", "pending-reap-of-running-task:stale-pod-view", "task %s was deleted for exceeding the pending timeout of %v on a copy of the Pod that had not begun running, although the Pod had begun running at the apiserver (created %v)", p.Name, pt, p.CreationTimestamp.Sub(Epoch))
			}
		}
	}
	// J2 kill
	if vj.Spec.KillTimestamp != nil && !now.Before(vj.Spec.KillTimestamp.Time) {
		reasons = append(reasons, "kill")
	}
	// J3 strategy decided (stable fact)
	if sat, unsat := m.truth(jr, j); (sat && isAny(j)) || (unsat && !isAny(j)) {
		reasons = append(reasons, "strategy")
	}
	// J4 job being deleted (stable fact)
	if j.DeletionTimestamp != nil {
		reasons = append(reasons, "job-deleted")
	}
	if len(reasons) == 0 {
		why := "kill=" + tsString(vj.Spec.KillTimestamp)
		sig := "unjustified-delete"
		if m.regressedTaskView(t, j) {
			sig += ":pod-cache-behind-status" // this very sync is about to record a terminated task as unfinished again
		}
		m.fail("C12", sig, "controller deleted task %s without justification (pending timeout %v, created %v, everRunning=%v, %s)", p.Name, pt, p.CreationTimestamp.Sub(Epoch), rec.EverRunning, why)
	}
}

// regressedTaskView reports whether the reconcile t works with a copy of some task of Job j (as the API has
// it now) that is older than the terminal state the Job's status already records for that task.
func (m *Monitors) regressedTaskView(t *Task, j *execution.Job) bool {
	for _, ref := range j.Status.Tasks {
		lost := ref.Status.State == execution.TaskDeletedFinalStateUnknown
		if ref.Status.State != execution.TaskTerminated && !lost {
			continue
		}
		if cp := m.olderPodCopy(t, j.Namespace, ref.Name); cp != nil && (lost || !podTerminal(cp)) {
			return true
		}
	}
	return false
}

func podTerminal(p *corev1.Pod) bool {
	return p.Status.Phase == corev1.PodSucceeded || p.Status.Phase == corev1.PodFailed
}

// olderPodCopy returns the copy of Pod ns/name the reconcile t read (else the one its process's cache holds) if it
// is not what the API holds now: the Pod is gone there, or has a different resourceVersion.
func (m *Monitors) olderPodCopy(t *Task, ns, name string) *corev1.Pod {
	if m.w.Inc == nil {
		return nil
	}
	cp, _ := viewPod(t, ns, name)
	if cp == nil {
		if o, ok, _ := m.w.Inc.Ctx.Inf.Pod.Raw().GetByKey(ns + "/" + name); ok {
			cp = o.(*corev1.Pod)
		}
	}
	if cp == nil {
		return nil
	}
	if cur, _ := m.w.API.peek(KPod)[key(ns, name)].(*corev1.Pod); cur == nil || cur.ResourceVersion != cp.ResourceVersion {
		return cp
	}
	return nil
}

func tsString(t *metav1.Time) string {
	if t == nil {
		return "unset"
	}
	return "T+" + t.Sub(Epoch).String()
}

func podBegunRunning(p *corev1.Pod) bool {
	for _, cs := range p.Status.ContainerStatuses {
		if cs.State.Running != nil && !cs.State.Running.StartedAt.IsZero() {
			return true
		}
		if cs.State.Terminated != nil {
			return true
		}
	}
	return p.Status.Phase == corev1.PodSucceeded || p.Status.Phase == corev1.PodFailed
}

// jobDeleted judges an applied Job delete request of a controller (j: the Job before the request).
func (m *Monitors) jobDeleted(j *execution.Job) {
	if j.DeletionTimestamp != nil {
		return
	}
	now := m.w.Clk.Now()
	jr := m.jobs[string(j.UID)]
	m.Evals["C13"]++
	cfg := m.jobCfg()
	var ttl time.Duration
	if cfg.DefaultTTLSecondsAfterFinished != nil {
		ttl = time.Duration(*cfg.DefaultTTLSecondsAfterFinished) * time.Second
	}
	if j.Spec.TTLSecondsAfterFinished != nil {
		ttl = time.Duration(*j.Spec.TTLSecondsAfterFinished) * time.Second
	}
	if f := j.Status.Condition.Finished; f != nil {
		if now.Before(f.FinishTimestamp.Add(ttl)) {
			m.fail("C13", "ttl-early", "Job %s deleted by the controller at %v, before finish %v + TTL %v", j.Name, now.Sub(Epoch), f.FinishTimestamp.Sub(Epoch), ttl)
		}
		return
	}
	// Not persisted as finished: the controller may delete in the very sync that first computes "finished".
	// Then in truth no task is alive, the Job is decided, and the TTL has elapsed since the latest finish/removal.
	if jr == nil {
		return
	}
	var latest time.Time
	for _, r := range jr.Pods {
		if r.live() {
			sig := "ttl-unfinished-live"
			if !r.Recorded {
				sig += ":" + m.unrecordedClass(j)
			}
			m.fail("C13", sig, "Job %s deleted by the controller while not finished and task %s is alive (listed in status: %v)", j.Name, r.Name, r.Recorded)
			return
		}
		for _, x := range []time.Time{r.FinishedAt, r.RemovedAt, r.TerminalAt} {
			if x.After(latest) {
				latest = x
			}
		}
	}
	decided := false
	sat, unsat := m.truth(jr, j)
	switch {
	case sat || unsat:
		decided = true
	case j.Spec.KillTimestamp != nil && !now.Before(j.Spec.KillTimestamp.Time):
		decided = true
		if latest.IsZero() {
			latest = j.Spec.KillTimestamp.Time
		}
	case j.Annotations[AnnAdmissionErr] != "":
		decided = true
	}
	if !decided {
		m.fail("C13", "ttl-undecided", "Job %s deleted by the controller although it is neither finished nor decided", j.Name)
		return
	}
	if !latest.IsZero() && now.Before(latest.Add(ttl)) {
		m.fail("C13", "ttl-early", "Job %s deleted by the controller at %v, before its last task ended %v + TTL %v", j.Name, now.Sub(Epoch), latest.Sub(Epoch), ttl)
	}
}

// ---------------------------------------------------------------------------
// Jobs

func jobClass(j *execution.Job) string {
	s := string(j.Status.Phase)
	if !j.Status.StartTime.IsZero() {
		s += "+started"
	}
	if j.DeletionTimestamp != nil {
		s += "+del"
	}
	if j.Spec.KillTimestamp != nil {
		s += "+kill"
	}
	if _, ok := j.Annotations[AnnAdmissionErr]; ok {
		s += "+adm"
	}
	s += fmt.Sprintf("+t%d", len(j.Status.Tasks))
	return s
}

func (m *Monitors) onJob(ev *Event) {
	now := m.w.Clk.Now()
	j := ev.Object.(*execution.Job)
	m.abstract(fmt.Sprintf("%s|%s|job|%s|%s", actorClass(ev.Actor), ev.Verb, ev.Type, jobClass(j)))
	uid := string(j.UID)
	jr := m.jobs[uid]
	if ev.Type == Added {
		jr = &jobRec{UID: uid, Name: j.Name, NS: j.Namespace, JCUID: j.Labels[LabelJCUID]}
		m.jobs[uid] = jr
		jr.LastObj = j
		m.jobCreated(ev, j)
		return
	}
	if jr == nil {
		return
	}
	if ev.Verb == "delete" && isCtrl(ev.Actor) {
		m.jobDeleted(ev.Old.(*execution.Job))
	}
	jr.Versions++
	if jr.Versions > m.MaxVersions {
		m.MaxVersions = jr.Versions
	}
	old := ev.Old.(*execution.Job)
	if ev.Type == Modified && isCtrl(ev.Actor) {
		// C11: a task recorded as terminated does not go back to an unfinished state. Judged before everything
		// else about this write: what follows from a regressed task (a finished Job that changes its result or
		// becomes unfinished again, further tasks, siblings stopped) is a consequence, not a second defect.
		for _, ot := range old.Status.Tasks {
			for _, nt := range j.Status.Tasks {
				// the recorded times survive even that (judged first: a cleared time is not part of the recorded finding)
				if nt.Name == ot.Name && !ot.RunningTimestamp.IsZero() && nt.RunningTimestamp.IsZero() {
					m.fail("C11", "running-timestamp-cleared", "Job %s task %s running timestamp was cleared", j.Name, ot.Name)
				}
				if nt.Name == ot.Name && !ot.FinishTimestamp.IsZero() && nt.FinishTimestamp.IsZero() {
					m.fail("C11", "finish-timestamp-cleared", "Job %s task %s finish timestamp was cleared", j.Name, ot.Name)
				}
			}
		}
		for _, ot := range old.Status.Tasks {
			lost := ot.Status.State == execution.TaskDeletedFinalStateUnknown
			if ot.Status.State != execution.TaskTerminated && !lost {
				continue
			}
			for _, nt := range j.Status.Tasks {
				if nt.Name != ot.Name || nt.Status.State == ot.Status.State || (!lost && nt.Status.State == execution.TaskDeletedFinalStateUnknown) {
					continue
				}
				sig := "task-status-regressed"
				if cp := m.olderPodCopy(m.w.current, j.Namespace, nt.Name); cp != nil && (lost || !podTerminal(cp)) {
					// the sync works with a copy of the task's Pod that is older than what the recorded state came
					// from (a live read, or a previous process): a lagging Pod cache
					sig += ":pod-cache-behind-status"
				}
				m.fail("C11", sig, "Job %s: task %s was recorded as %s/%s and is now recorded as %s (writer %s)", j.Name, nt.Name, ot.Status.State, ot.Status.Result, nt.Status.State, ev.Actor)
			}
		}
	}
	if ev.Actor == "user" {
		jr.UserEdited = true
		if old.Status.Condition.Finished != nil {
			jr.UserEditedAfterFinish = true
		}
		if old.Spec.KillTimestamp != nil && j.Spec.KillTimestamp == nil && !now.Before(old.Spec.KillTimestamp.Time) {
			jr.KillCleared = true // removed although it had passed (admission must refuse this)
		}
		had, has := false, false
		for _, f := range old.Finalizers {
			had = had || f == Finalizer
		}
		for _, f := range j.Finalizers {
			has = has || f == Finalizer
		}
		if had && !has {
			jr.FinalizerStripped = true
		}
	}
	if j.Spec.KillTimestamp != nil && jr.KillSetAt.IsZero() {
		jr.KillSetAt = now
	}
	if j.Spec.KillTimestamp != nil {
		jr.KillTS = j.Spec.KillTimestamp.Time
	}
	if isActive(old) && (ev.Type == Deleted || !isActive(j)) && jr.JCUID != "" {
		if m.freeSeq == nil {
			m.freeSeq = map[string]int{}
		}
		m.freeSeq[jr.JCUID] = ev.Seq
	}
	if ev.Type == Deleted {
		jr.Removed = true
		jr.LastObj = j
		m.Evals["C13"]++
		for _, o := range m.w.API.peek(KPod) {
			if jr.FinalizerStripped {
				break
			}
			p := o.(*corev1.Pod)
			if p.Namespace != j.Namespace {
				continue
			}
			listed := false
			for _, ref := range old.Status.Tasks {
				if ref.Name == p.Name {
					listed = true
				}
			}
			if p.Labels[LabelJobUID] == uid && ownerJobUID(p) == uid || listed && p.Labels[LabelJobUID] == uid {
				sig := "job-removed-with-tasks"
				if !listed {
					sig = "job-removed-with-" + m.unrecordedClass(old)
				}
				m.fail("C13", sig, "Job %s removed from the API while its task %s still exists (listed in status: %v)", j.Name, p.Name, listed)
			}
		}
		return
	}
	if old.Status.Phase != j.Status.Phase {
		res := ""
		if f := j.Status.Condition.Finished; f != nil {
			res = " result=" + string(f.Result)
		}
		var ts []string
		for _, t := range j.Status.Tasks {
			ts = append(ts, fmt.Sprintf("%s=%s/%s", strings.TrimPrefix(t.Name, j.Name+"-"), t.Status.State, t.Status.Result))
		}
		m.w.trace("  job %s phase %s -> %s%s tasks %v by %s %s (maxAttempts %d, anySuccessful %v, deleting %v)", j.Name, old.Status.Phase, j.Status.Phase, res, ts, ev.Actor, ev.Verb, maxAttempts(j), isAny(j), j.DeletionTimestamp != nil)
	}
	m.checkJobTransition(ev, jr, old, j)
	jr.LastObj = j
	if isCtrl(ev.Actor) && m.w.current != nil && m.w.current.Ctl.Name == "job" {
		jr.CtrlRV, _ = strconv.Atoi(j.ResourceVersion)
	}
}

func (m *Monitors) checkJobTransition(ev *Event, jr *jobRec, old, j *execution.Job) {
	now := m.w.Clk.Now()
	ctrl := isCtrl(ev.Actor)
	for _, ref := range j.Status.Tasks {
		if rec := m.pods[j.Namespace+"/"+ref.Name]; rec != nil && rec.JobUID == string(j.UID) {
			rec.Recorded = true
		}
	}
	started := old.Status.StartTime.IsZero() && !j.Status.StartTime.IsZero()

	// --- queue controller refusal (C06 a/b)
	_, hadAdm := old.Annotations[AnnAdmissionErr]
	_, hasAdm := j.Annotations[AnnAdmissionErr]
	if !hadAdm && hasAdm && ctrl && old.Status.StartTime.IsZero() && m.w.current != nil && strings.HasPrefix(m.w.current.Ctl.Name, "queue") {
		jr.Refused = true
		m.Evals["C06"]++
		pol := execution.ConcurrencyPolicy("")
		if j.Spec.StartPolicy != nil {
			pol = j.Spec.StartPolicy.ConcurrencyPolicy
		}
		if sp := j.Spec.StartPolicy; sp != nil && sp.StartAfter != nil && now.Before(sp.StartAfter.Time) {
			m.fail("C07", "refused-before-due", "Job %s was refused admission by the queue controller at %v although it is not due before %v: the concurrency policy is to be evaluated when the Job becomes due", j.Name, now.Sub(Epoch), sp.StartAfter.Sub(Epoch))
		}
		if pol != execution.ConcurrencyPolicyForbid {
			m.fail("C06", "non-forbid-refused", "Job %s with policy %q was refused admission by the queue controller", j.Name, pol)
		} else if jc := m.jcByUIDLocked(jr.JCUID); jc != nil {
			// a Forbid refusal must be because the JobConfig is at its limit in truth or at least in the view
			active := 0
			for _, o := range m.w.API.peek(KJob) {
				if x := o.(*execution.Job); x.UID != j.UID && x.Labels[LabelJCUID] == jr.JCUID && isActive(x) {
					active++
				}
			}
			if int64(active) < jc.Spec.Concurrency.GetMaxConcurrency() {
				m.Evals["C06_refused_below_limit_in_truth"]++
			}
		}
	}

	// --- C09: the job controller may give up with an admission error only because an object that
	// does not belong to the Job occupies a task name (or the node refused the Pod)
	if !hadAdm && hasAdm && ctrl && m.w.current != nil && m.w.current.Ctl.Name == "job" {
		m.Evals["C09_admission_error"]++
		foreign := false
		for k, rec := range m.pods {
			if rec.NS == j.Namespace && strings.HasPrefix(rec.Name, j.Name+"-") && rec.JobUID != string(j.UID) && rec.Exists {
				foreign = true
			}
			_ = k
		}
		if !foreign && !m.w.Opt.InvalidPodFaults {
			m.fail("C09", "admission-error-without-foreign-object", "the job controller gave Job %s an admission error (%q) although no object foreign to the Job occupies any of its task names: a task of its own must be adopted, not treated as foreign", j.Name, j.Annotations[AnnAdmissionErr])
		}
	}

	// --- start write: C07, C05, C06c
	if started {
		jr.StartedAt = now
		if ev.Fault == FTimeoutAfter && ctrl && jr.JCUID != "" {
			if m.timedOutStart == nil {
				m.timedOutStart = map[string]bool{}
			}
			m.timedOutStart[jr.JCUID] = true
			m.Evals["start_write_timed_out_after_apply"]++
		}
		m.Evals["C07"]++
		if sp := j.Spec.StartPolicy; sp != nil && sp.StartAfter != nil && now.Before(sp.StartAfter.Time) {
			m.fail("C07", "started-before-startAfter", "Job %s started at %v, before its startAfter %v", j.Name, now.Sub(Epoch), sp.StartAfter.Sub(Epoch))
		} else if t, ok := m.submittedStartAfter[j.Namespace+"/"+j.Name]; ok && now.Before(t) {
			// judged against what the user asked for, not only against what admission stored
			m.fail("C07", "started-before-requested-startAfter", "Job %s started at %v, before the startAfter %v its creator (or last editor) asked for; the stored Job has startAfter %v", j.Name, now.Sub(Epoch), t.Sub(Epoch), func() interface{} {
				if sp := j.Spec.StartPolicy; sp != nil && sp.StartAfter != nil {
					return sp.StartAfter.Sub(Epoch)
				}
				return "unset"
			}())
		}
		if jr.JCUID != "" && j.Spec.StartPolicy != nil {
			pol := j.Spec.StartPolicy.ConcurrencyPolicy
			jc := m.jcByUIDLocked(jr.JCUID)
			var others []string
			for _, o := range m.w.API.peek(KJob) {
				if x := o.(*execution.Job); x.UID != j.UID && x.Labels[LabelJCUID] == jr.JCUID && isActive(x) {
					others = append(others, x.Name)
				}
			}
			if (pol == execution.ConcurrencyPolicyForbid || pol == execution.ConcurrencyPolicyEnqueue) && jc != nil {
				m.Evals["C05"]++
				if int64(len(others)) >= jc.Spec.Concurrency.GetMaxConcurrency() {
					sort.Strings(others)
					m.fail("C05", "concurrency-exceeded"+m.timedOutSuffix(jr.JCUID), "Job %s (%s) started while %v of the same JobConfig are started and not finished (maxConcurrency %d)", j.Name, pol, others, jc.Spec.Concurrency.GetMaxConcurrency())
				}
				if len(others) > 0 {
					m.Evals["C05_contended"]++
				}
			}
			if pol == execution.ConcurrencyPolicyEnqueue {
				m.Evals["C06"]++
				for _, o := range m.w.API.peek(KJob) {
					x := o.(*execution.Job)
					if x.UID == j.UID || x.Labels[LabelJCUID] != jr.JCUID || x.DeletionTimestamp != nil || !isQueued(x) {
						continue
					}
					if x.Spec.StartPolicy == nil || x.Spec.StartPolicy.ConcurrencyPolicy != execution.ConcurrencyPolicyEnqueue {
						continue
					}
					if _, adm := x.Annotations[AnnAdmissionErr]; adm {
						continue
					}
					due := x.Spec.StartPolicy.StartAfter == nil || !now.Before(x.Spec.StartPolicy.StartAfter.Time)
					if due && x.CreationTimestamp.Time.Before(j.CreationTimestamp.Time) {
						m.fail("C06", "fifo-violated", "Enqueue Job %s (created %v) started while earlier-created, due Job %s (created %v) is still queued", j.Name, j.CreationTimestamp.Sub(Epoch), x.Name, x.CreationTimestamp.Sub(Epoch))
					}
				}
			}
		}
		if jr.Refused {
			m.Evals["C06_started_after_refusal"]++
		}
	}

	// --- C02: a scheduled Job keeps recording its schedule time and its JobConfig, whoever writes to it
	if a, ok := old.Annotations[AnnScheduleTime]; ok && ev.Type == Modified && isCtrl(ev.Actor) {
		m.Evals["C02_kept"]++
		if b, ok2 := j.Annotations[AnnScheduleTime]; !ok2 || a != b {
			m.fail("C02", "schedule-time-annotation-lost", "scheduled Job %s recorded schedule time %s and after a write of %s (%s) records %q", j.Name, a, ev.Actor, ev.Verb, b)
		}
		if old.Labels[LabelJCUID] != j.Labels[LabelJCUID] {
			m.fail("C02", "jobconfig-label-changed", "scheduled Job %s was labelled with JobConfig uid %q and after a write of %s is labelled %q", j.Name, old.Labels[LabelJCUID], ev.Actor, j.Labels[LabelJCUID])
		}
	}
	// --- C11 monotonicity (all writers)
	m.Evals["C11"]++
	if !old.Status.StartTime.IsZero() && !old.Status.StartTime.Equal(j.Status.StartTime) {
		m.fail("C11", "startTime-changed", "Job %s start time changed from %v to %v (writer %s %s)", j.Name, old.Status.StartTime, j.Status.StartTime, ev.Actor, ev.Verb)
	}
	exempt := jr.UserEditedAfterFinish || j.DeletionTimestamp != nil
	if of := old.Status.Condition.Finished; of != nil {
		nf := j.Status.Condition.Finished
		if nf == nil {
			m.fail("C11", "became-unfinished", "finished Job %s (%s) became unfinished (phase %s, writer %s)", j.Name, of.Result, j.Status.Phase, ev.Actor)
		} else if !exempt && (nf.Result != of.Result || !nf.FinishTimestamp.Equal(&of.FinishTimestamp)) {
			m.fail("C11", "result-changed", "Job %s result/finish time changed from %s@%v to %s@%v", j.Name, of.Result, of.FinishTimestamp.Sub(Epoch), nf.Result, nf.FinishTimestamp.Sub(Epoch))
		}
	}
	if j.Status.CreatedTasks < old.Status.CreatedTasks {
		m.fail("C11", "createdTasks-decreased", "Job %s createdTasks went from %d to %d", j.Name, old.Status.CreatedTasks, j.Status.CreatedTasks)
	}
	for _, ot := range old.Status.Tasks {
		found := false
		for _, nt := range j.Status.Tasks {
			if nt.Name != ot.Name {
				continue
			}
			found = true
			if !(ev.Type == Modified && isCtrl(ev.Actor)) { // controller writes: judged at the top
				if !ot.RunningTimestamp.IsZero() && nt.RunningTimestamp.IsZero() {
					m.fail("C11", "running-timestamp-cleared", "Job %s task %s running timestamp was cleared", j.Name, ot.Name)
				}
				if !ot.FinishTimestamp.IsZero() && nt.FinishTimestamp.IsZero() {
					m.fail("C11", "finish-timestamp-cleared", "Job %s task %s finish timestamp was cleared", j.Name, ot.Name)
				}
			}
		}
		if !found {
			m.fail("C09", "task-ref-disappeared", "Job %s no longer lists task %s in its status", j.Name, ot.Name)
		}
	}
	// --- C11 coherence (status versions computed by the job controller)
	jobCtl := ctrl && m.w.current != nil && m.w.current.Ctl.Name == "job"
	if jobCtl && ev.Verb == "update/status" {
		m.Evals["C11_coherence"]++
		c := j.Status.Condition
		n := 0
		var which string
		for name, b := range map[string]bool{"queueing": c.Queueing != nil, "waiting": c.Waiting != nil, "running": c.Running != nil, "finished": c.Finished != nil} {
			if b {
				n++
				which = name
			}
		}
		if n != 1 {
			m.fail("C11", "condition-count", "Job %s has %d of the queueing/waiting/running/finished conditions set", j.Name, n)
		} else {
			want := map[string]execution.JobState{"queueing": execution.JobStateQueued, "waiting": execution.JobStateWaiting, "running": execution.JobStateRunning, "finished": execution.JobStateFinished}[which]
			if j.Status.State != want {
				m.fail("C11", "state-vs-condition", "Job %s state %q but condition is %s", j.Name, j.Status.State, which)
			}
		}
		if j.Status.Phase.IsTerminal() != (c.Finished != nil) {
			m.fail("C11", "phase-vs-finished", "Job %s phase %s but finished condition set=%v", j.Name, j.Status.Phase, c.Finished != nil)
		}
		if j.Status.CreatedTasks != int64(len(j.Status.Tasks)) {
			m.fail("C11", "createdTasks-vs-list", "Job %s createdTasks %d but %d tasks listed", j.Name, j.Status.CreatedTasks, len(j.Status.Tasks))
		}
		run := 0
		for _, t := range j.Status.Tasks {
			if !t.RunningTimestamp.IsZero() && t.FinishTimestamp.IsZero() {
				run++
			}
		}
		if j.Status.RunningTasks != int64(run) {
			m.fail("C11", "runningTasks-vs-list", "Job %s runningTasks %d but %d tasks are running in the list", j.Name, j.Status.RunningTasks, run)
		}
	} else if ctrl && ev.Verb == "update/status" && m.w.current != nil && strings.HasPrefix(m.w.current.Ctl.Name, "queue") {
		// the queue controller's start write may only set startTime
		o2 := old.DeepCopy()
		o2.Status.StartTime = j.Status.StartTime
		if !apiequality.Semantic.DeepEqual(o2.Status, j.Status) {
			m.fail("C11", "start-write-changed-more", "the queue controller's start write of Job %s changed more than startTime", j.Name)
		}
	}

	// --- C09 (4): a task whose object still exists is never recorded as lost
	if jobCtl && ev.Verb == "update/status" {
		for _, nt := range j.Status.Tasks {
			var ot *execution.TaskRef
			for i := range old.Status.Tasks {
				if old.Status.Tasks[i].Name == nt.Name {
					ot = &old.Status.Tasks[i]
				}
			}
			lostNow := nt.Status.State == execution.TaskDeletedFinalStateUnknown && (ot == nil || ot.Status.State != execution.TaskDeletedFinalStateUnknown)
			finishedByAbsence := !nt.FinishTimestamp.IsZero() && (ot == nil || ot.FinishTimestamp.IsZero())
			if !lostNow && !finishedByAbsence {
				continue
			}
			m.Evals["C09"]++
			rec := m.pods[j.Namespace+"/"+nt.Name]
			if rec == nil || !rec.Exists || rec.JobUID != string(j.UID) {
				continue
			}
			if lostNow {
				m.fail("C09", "recorded-lost-while-exists", "Job %s records task %s as lost (%s) while its Pod still exists", j.Name, nt.Name, nt.Status.State)
			} else if rec.TerminalAt.IsZero() {
				// finish recorded although the Pod exists and never reported a terminal phase
				m.fail("C09", "recorded-finished-while-alive", "Job %s records task %s as finished (%s/%s) while its Pod exists and is not terminal", j.Name, nt.Name, nt.Status.State, nt.Status.Result)
			}
		}
		// C09 (3): a foreign object on a task name never shows up in the status
		for _, nt := range j.Status.Tasks {
			if rec := m.pods[j.Namespace+"/"+nt.Name]; rec != nil && rec.JobUID != string(j.UID) {
				m.fail("C09", "foreign-object-adopted", "Job %s lists %s in its status although that object does not belong to it (owner job uid %q)", j.Name, nt.Name, rec.JobUID)
			}
		}
	}

	// --- C10 at the write that sets the finished condition
	if old.Status.Condition.Finished == nil && j.Status.Condition.Finished != nil {
		jr.FinishedAt = now
		m.Evals["C10"]++
		if numIndexes(j) >= 2 || len(jr.Pods) >= 2 {
			m.MultiAttemptJobs++
		}
		res := j.Status.Condition.Finished.Result
		if j.DeletionTimestamp == nil {
			for _, r := range jr.Pods {
				if r.live() {
					sig := "finished-with-live-task"
					if res == execution.JobResultAdmissionError {
						sig = "finished-with-live-task:admission-error"
					}
					if !r.Recorded {
						sig = "finished-with-" + m.unrecordedClass(j)
					}
					m.fail("C10", sig, "Job %s reported finished (%s) while its task %s is still alive (listed in status: %v)", j.Name, res, r.Name, r.Recorded)
					break
				}
			}
		}
		if res == execution.JobResultSuccess || res == execution.JobResultFailed {
			sat, unsat := m.truth(jr, j)
			if res == execution.JobResultSuccess && !sat {
				m.fail("C10", "success-not-satisfied", "Job %s reported Succeeded but its strategy is not satisfied by tasks that really succeeded", j.Name)
			}
			if res == execution.JobResultFailed && !unsat {
				sfx := ""
				if j.DeletionTimestamp != nil {
					// the Job is being deleted and its finalizer removed a task that had succeeded before the deletion,
					// without the controller ever having seen the success (its Pod cache was behind)
					for _, nt := range j.Status.Tasks {
						if rec := m.pods[j.Namespace+"/"+nt.Name]; rec != nil && rec.Succeeded && !rec.LateSuccess && nt.Status.Result != execution.TaskSucceeded {
							sfx = ":success-unobserved-before-job-deletion"
						}
					}
				}
				m.fail("C10", "failed-still-satisfiable"+sfx, "Job %s reported Failed but its strategy can still be satisfied (or is satisfied)", j.Name)
			}
		}
		if res == execution.JobResultKilled && j.Spec.KillTimestamp == nil && j.DeletionTimestamp == nil {
			m.fail("C12", "killed-without-kill", "Job %s reported Killed without a kill timestamp or deletion", j.Name)
		}
	}
}

// jobCreated judges C02 at the creation of a scheduled Job.
func (m *Monitors) jobCreated(ev *Event, j *execution.Job) {
	ann, scheduled := j.Annotations[AnnScheduleTime]
	if !isCtrl(ev.Actor) || !scheduled {
		return
	}
	m.Evals["C02"]++
	var owner *metav1.OwnerReference
	for i := range j.OwnerReferences {
		if r := &j.OwnerReferences[i]; r.Controller != nil && *r.Controller {
			owner = r
		}
	}
	if owner == nil || owner.Kind != "JobConfig" {
		m.fail("C02", "no-owner", "scheduled Job %s has no JobConfig controller reference", j.Name)
		return
	}
	if j.Labels[LabelJCUID] != string(owner.UID) {
		m.fail("C02", "label-owner-mismatch", "scheduled Job %s labelled with JobConfig uid %q but owned by %q", j.Name, j.Labels[LabelJCUID], owner.UID)
	}
	jc := m.jcByUIDLocked(string(owner.UID))
	if jc == nil || jc.Name != owner.Name {
		// the JobConfig may have been deleted meanwhile: the cache was stale, not judged
		m.Evals["C02_owner_gone"]++
	}
	// name = f(jobconfig name, schedule time); annotation = that schedule time
	req := ""
	if t := m.w.current; t != nil {
		req = fmt.Sprint(t.Item)
	}
	wantName := owner.Name + "-" + ann
	if j.Name != wantName {
		m.fail("C02", "name-not-function-of-schedule", "scheduled Job is named %s, expected %s (JobConfig %s, schedule-time annotation %s)", j.Name, wantName, owner.Name, ann)
	}
	if req != "" {
		// request key: <ns>/<jobconfig>.<unix>
		if i := strings.LastIndex(req, "."); i >= 0 {
			if reqTS := req[i+1:]; reqTS != ann {
				m.fail("C02", "annotation-not-requested-time", "Job %s created for request %s records schedule time %s", j.Name, req, ann)
			}
			if reqName := req[strings.Index(req, "/")+1 : i]; reqName != owner.Name {
				m.fail("C02", "owner-not-requested-config", "Job %s created for request %s is owned by %s", j.Name, req, owner.Name)
			}
		}
	}
	// uniqueness among existing Jobs
	for _, o := range m.w.API.peek(KJob) {
		x := o.(*execution.Job)
		if x.UID == j.UID || x.Namespace != j.Namespace {
			continue
		}
		if x.Labels[LabelJCUID] == string(owner.UID) && x.Annotations[AnnScheduleTime] == ann {
			m.fail("C02", "duplicate-scheduled-job", "Jobs %s and %s both exist for JobConfig %s and schedule time %s", x.Name, j.Name, owner.Name, ann)
		}
	}
	k := string(owner.UID) + "@" + ann
	if prev, ok := m.schedJobs[k]; ok && prev != j.Name {
		m.fail("C02", "name-changed-between-creations", "schedule time %s of JobConfig %s was created as %s and later as %s", ann, owner.Name, prev, j.Name)
	}
	m.schedJobs[k] = j.Name
}

func (m *Monitors) onJobConfig(ev *Event) {
	jc := ev.Object.(*execution.JobConfig)
	m.trackCron(ev, jc)
	if ls := jc.Status.LastScheduled; ls != nil {
		if m.lastSchedHWM == nil {
			m.lastSchedHWM = map[string]time.Time{}
		}
		if ls.Time.After(m.lastSchedHWM[string(jc.UID)]) {
			m.lastSchedHWM[string(jc.UID)] = ls.Time
		}
	}
	m.abstract(fmt.Sprintf("%s|%s|jc|%s|a%dq%d", actorClass(ev.Actor), ev.Verb, ev.Type, jc.Status.Active, jc.Status.Queued))
	if ev.Type == Modified {
		old := ev.Old.(*execution.JobConfig)
		m.Evals["C15"]++
		if ev.Verb == "update/status" {
			if m.jcVersions == nil {
				m.jcVersions = map[string]int{}
			}
			m.jcVersions[string(jc.UID)]++
			if m.jcVersions[string(jc.UID)] > m.MaxJCVersions {
				m.MaxJCVersions = m.jcVersions[string(jc.UID)]
			}
		}
		if old.Status.LastScheduled != nil && (jc.Status.LastScheduled == nil || jc.Status.LastScheduled.Before(old.Status.LastScheduled)) {
			m.fail("C15", "lastScheduled-backwards", "JobConfig %s lastScheduled moved from %v to %v", jc.Name, tsString(old.Status.LastScheduled), tsString(jc.Status.LastScheduled))
		}
		if old.Status.LastExecuted != nil && (jc.Status.LastExecuted == nil || jc.Status.LastExecuted.Before(old.Status.LastExecuted)) {
			m.fail("C15", "lastExecuted-backwards", "JobConfig %s lastExecuted moved from %v to %v", jc.Name, tsString(old.Status.LastExecuted), tsString(jc.Status.LastExecuted))
		}
	}
}

// ---------------------------------------------------------------------------
// quiescent points and fixpoint

func (m *Monitors) onQuiescent() {
	w := m.w
	// C05: the in-memory counter equals the true number of active Jobs
	jobs := w.API.List(KJob)
	jcs := w.API.List(KJobConfig)
	delayed := map[string]bool{}
	for _, c := range w.Inc.Ctls {
		if _, ok := c.Q.NextTimer(); ok {
			for _, d := range c.Q.delayed {
				if d.why == "ratelimited" {
					delayed[c.Name] = true
				}
			}
		}
	}
	// C12: at a quiescent point a second or more after a Job's kill time (everything delivered, nothing
	// runnable, no failed sync of the job controller waiting for its retry) every alive task the status
	// lists has been asked to stop - whatever phase the Job is in
	if !delayed["job"] {
		now := w.Clk.Now()
		for _, x := range jobs {
			j := x.(*execution.Job)
			kt := j.Spec.KillTimestamp
			jr := m.jobs[string(j.UID)]
			if kt == nil || jr == nil || now.Sub(kt.Time) < time.Second || j.DeletionTimestamp != nil {
				continue
			}
			for _, r := range jr.Pods {
				m.Evals["C12_quiescent"]++
				if r.live() && r.Recorded && r.DelReqAt.IsZero() {
					m.fail("C12", "alive-task-not-deleted-after-kill", "task %s of Job %s (phase %s) is alive and its deletion was never requested although the kill timestamp %s passed %v ago and the controllers are idle", r.Name, j.Name, j.Status.Phase, tsString(kt), now.Sub(kt.Time))
				}
			}
		}
	}
	if !delayed["job"] {
		m.pendingReaped(jobs, time.Second, "and the controllers are idle")
	}
	for _, o := range jcs {
		jc := o.(*execution.JobConfig)
		var act, que []string
		var lastSched, lastExec time.Time
		for _, x := range jobs {
			xj := x.(*execution.Job)
			if xj.Labels[LabelJCUID] != string(jc.UID) || xj.Namespace != jc.Namespace {
				continue
			}
			if isActive(xj) {
				act = append(act, xj.Name)
			}
			if isQueued(xj) {
				que = append(que, xj.Name)
			}
			if s, ok := xj.Annotations[AnnScheduleTime]; ok {
				if u, err := strconv.ParseInt(s, 10, 64); err == nil && time.Unix(u, 0).After(lastSched) {
					lastSched = time.Unix(u, 0)
				}
			}
			if !xj.Status.StartTime.IsZero() && xj.Status.StartTime.Time.After(lastExec) {
				lastExec = xj.Status.StartTime.Time
			}
		}
		m.Evals["C05_counter"]++
		if !delayed["queue-perconfig"] {
			if c := w.Inc.Store.CountActiveJobsForConfig(jc); int(c) != len(act) {
				m.fail("C05", "counter-vs-truth"+m.timedOutSuffix(string(jc.UID)), "active-job counter for JobConfig %s is %d but %d Jobs are started and not finished %v", jc.Name, c, len(act), act)
			}
		}
		if delayed["jobconfig"] {
			continue
		}
		m.Evals["C15_quiescent"]++
		sort.Strings(act)
		sort.Strings(que)
		names := func(refs []execution.JobReference) []string {
			var out []string
			for _, r := range refs {
				out = append(out, r.Name)
			}
			sort.Strings(out)
			return out
		}
		ga, gq := names(jc.Status.ActiveJobs), names(jc.Status.QueuedJobs)
		if fmt.Sprint(ga) != fmt.Sprint(act) || int(jc.Status.Active) != len(act) {
			m.fail("C15", "active-list", "JobConfig %s status lists active %v (count %d) but the active Jobs are %v", jc.Name, ga, jc.Status.Active, act)
		}
		if fmt.Sprint(gq) != fmt.Sprint(que) || int(jc.Status.Queued) != len(que) {
			m.fail("C15", "queued-list", "JobConfig %s status lists queued %v (count %d) but the queued Jobs are %v", jc.Name, gq, jc.Status.Queued, que)
		}
		want := execution.JobConfigReady
		switch {
		case len(act) > 0:
			want = execution.JobConfigExecuting
		case len(que) > 0:
			want = execution.JobConfigJobQueued
		case jc.Spec.Schedule != nil && jc.Spec.Schedule.Cron != nil && jc.Spec.Schedule.Disabled:
			want = execution.JobConfigReadyDisabled
		case jc.Spec.Schedule != nil && jc.Spec.Schedule.Cron != nil:
			want = execution.JobConfigReadyEnabled
		}
		if jc.Status.State != want && !(jc.Status.State == "" && len(jobs) == 0) {
			// a JobConfig that never had a Job is not synced by anything but its own Add event
			m.fail("C15", "state", "JobConfig %s state is %q, expected %q (active %v queued %v)", jc.Name, jc.Status.State, want, act, que)
		}
		if !lastSched.IsZero() && (jc.Status.LastScheduled == nil || jc.Status.LastScheduled.Time.Before(lastSched)) {
			m.fail("C15", "lastScheduled-too-small", "JobConfig %s lastScheduled %s is before the schedule time %v of one of its Jobs", jc.Name, tsString(jc.Status.LastScheduled), lastSched.Sub(Epoch))
		}
		if !lastExec.IsZero() && (jc.Status.LastExecuted == nil || jc.Status.LastExecuted.Time.Before(lastExec.Truncate(time.Second))) {
			m.fail("C15", "lastExecuted-too-small", "JobConfig %s lastExecuted %s is before the start time %v of one of its Jobs", jc.Name, tsString(jc.Status.LastExecuted), lastExec.Sub(Epoch))
		}
	}
}

// pendingReaped judges C12's pending-timeout clause on the Jobs given: a listed task that has not begun
// running `margin` after its pending deadline must have been asked to stop (it is then counted as a failed
// attempt; that part is C08's and C10's). Only Jobs that are running undisturbed are judged: killed, deleted
// and finished Jobs stop their tasks for other reasons.
func (m *Monitors) pendingReaped(jobs []runtime.Object, margin time.Duration, when string) {
	now := m.w.Clk.Now()
	cfg := m.jobCfg()
	for _, x := range jobs {
		j := x.(*execution.Job)
		jr := m.jobs[string(j.UID)]
		if jr == nil || j.Status.StartTime.IsZero() || j.Status.Condition.Finished != nil || j.Spec.KillTimestamp != nil || j.DeletionTimestamp != nil {
			continue
		}
		pt := pendingTimeout(j, cfg)
		if pt <= 0 {
			continue
		}
		for _, r := range jr.Pods {
			m.Evals["C12_pending"]++
			if r.live() && r.Recorded && !r.EverRunning && r.DelReqAt.IsZero() && now.Sub(r.Created.Add(pt)) >= margin {
				m.fail("C12", "pending-task-not-reaped", "task %s of Job %s was created at %v, has not begun running, and its deletion was never requested although the pending timeout of %v ran out %v ago %s", r.Name, j.Name, r.Created.Sub(Epoch), pt, now.Sub(r.Created.Add(pt)), when)
			}
		}
	}
}

// Fixpoint evaluates the bounded-liveness clauses. Call after Run returned at a fixpoint.
func (m *Monitors) Fixpoint() {
	w := m.w
	now := w.Clk.Now()
	if w.Deadlocked {
		return // already reported where it happened; the rest of the case was not run
	}
	if w.Stuck {
		m.fail("C20", "no-fixpoint", "the system did not reach a fixpoint within %d steps", w.Opt.StepBudget)
		return
	}
	jobs := w.API.List(KJob)
	cfg := m.jobCfg()
	m.pendingReaped(jobs, 2*time.Minute, "(end of the run)")
	for _, c := range w.Inc.Ctls {
		m.Evals["C20_requeue"]++
		if n, item := c.Q.PendingRequeues(); n > 40 {
			m.fail("C20", "endless-retry", "item %v of the %s queue is still being retried at the end of the run, after %d failed syncs in a row", item, c.Name, n)
		}
	}
	for _, o := range jobs {
		j := o.(*execution.Job)
		jr := m.jobs[string(j.UID)]
		if jr == nil {
			continue
		}
		_, adm := j.Annotations[AnnAdmissionErr]
		due := j.Spec.StartPolicy == nil || j.Spec.StartPolicy.StartAfter == nil || !now.Before(j.Spec.StartPolicy.StartAfter.Time)
		// C06 / C07: nothing startable stays queued
		if isQueued(j) && due && !adm && j.DeletionTimestamp == nil {
			m.Evals["C07_fix"]++
			if jr.JCUID == "" {
				m.fail("C07", "independent-job-stuck", "Job %s (no JobConfig) is still queued at the fixpoint although it is due", j.Name)
			} else {
				pol := execution.ConcurrencyPolicyAllow
				if j.Spec.StartPolicy != nil {
					pol = j.Spec.StartPolicy.ConcurrencyPolicy
				}
				active := 0
				for _, x := range jobs {
					if xj := x.(*execution.Job); xj.Labels[LabelJCUID] == jr.JCUID && isActive(xj) {
						active++
					}
				}
				var max int64 = 1
				found := false
				suffix := ""
				for _, x := range w.API.List(KJobConfig) {
					if jc := x.(*execution.JobConfig); string(jc.UID) == jr.JCUID {
						max = jc.Spec.Concurrency.GetMaxConcurrency()
						found = true
						// the known finding: the queue did sync after the capacity-freeing event had reached
						// its cache, but ahead of the store; a queue that was never woken is something else
						k := jc.Namespace + "/" + jc.Name
						if fs, ok := m.freeSeq[jr.JCUID]; ok && m.queueSyncBehind[k] && m.queueSyncCursor[k] > fs {
							suffix = ":store-notified-after-queue-sync"
						}
						if m.staleTombstone[jr.JCUID] {
							suffix = ":after-stale-tombstone"
						}
					}
				}
				if !found {
					// the JobConfig is gone: the garbage collector owns the Job now
				} else if pol != execution.ConcurrencyPolicyEnqueue || int64(active) < max {
					prop := "C06"
					if j.Spec.StartPolicy != nil && j.Spec.StartPolicy.StartAfter != nil {
						prop = "C07"
					}
					m.fail(prop, "due-job-stuck"+suffix, "Job %s (%s) is still queued at the fixpoint with %d active Jobs of its JobConfig (maxConcurrency %d)", j.Name, pol, active, max)
				}
			}
		}
		if jr.Refused {
			m.Evals["C06_fix"]++
			if j.Status.Phase != execution.JobAdmissionError && j.DeletionTimestamp == nil {
				m.fail("C06", "refused-not-terminal", "Job %s was refused admission but is in phase %s at the fixpoint", j.Name, j.Status.Phase)
			}
		}
		// C13: deletion completes; finished Jobs past TTL are deleted
		anyPod := false
		for _, r := range jr.Pods {
			if r.Exists {
				anyPod = true
			}
		}
		if j.DeletionTimestamp != nil && !anyPod {
			m.fail("C13", "deletion-stuck", "Job %s is being deleted, none of its tasks exists, but it is still there at the fixpoint", j.Name)
		}
		if f := j.Status.Condition.Finished; f != nil && j.DeletionTimestamp == nil {
			var ttl time.Duration
			if cfg.DefaultTTLSecondsAfterFinished != nil {
				ttl = time.Duration(*cfg.DefaultTTLSecondsAfterFinished) * time.Second
			}
			if j.Spec.TTLSecondsAfterFinished != nil {
				ttl = time.Duration(*j.Spec.TTLSecondsAfterFinished) * time.Second
			}
			m.Evals["C13_fix"]++
			if !now.Before(f.FinishTimestamp.Add(ttl).Add(2 * time.Second)) {
				m.fail("C13", "ttl-not-deleted", "finished Job %s (finish %v, TTL %v) still exists at the fixpoint (%v)", j.Name, f.FinishTimestamp.Sub(Epoch), ttl, now.Sub(Epoch))
			}
		}
		// C12: once the kill time has passed every task still alive is deleted - whatever the Job's phase
		// (a Job refused admission with other indexes' tasks alive included). Judged two minutes after the
		// kill time at the earliest (write faults are finite); tasks the status never listed are the
		// unrecorded-task finding, not this one.
		if kt := j.Spec.KillTimestamp; kt != nil && now.Sub(kt.Time) >= 2*time.Minute && j.DeletionTimestamp == nil {
			for _, r := range jr.Pods {
				m.Evals["C12_fix"]++
				if r.live() && r.Recorded && r.DelReqAt.IsZero() {
					m.fail("C12", "alive-task-not-deleted-after-kill", "task %s of Job %s (phase %s) is alive and its deletion was never requested although the kill timestamp %s passed %v ago", r.Name, j.Name, j.Status.Phase, tsString(kt), now.Sub(kt.Time))
				}
			}
		}
		// C10 / C12 bounded progress for started Jobs that are not being deleted
		if !j.Status.StartTime.IsZero() && j.Status.Condition.Finished == nil && j.DeletionTimestamp == nil {
			m.Evals["C10_fix"]++
			sat, unsat := m.truthDemanded(jr, j)
			stuckOK := false
			var alive []string
			for _, r := range jr.Pods {
				if !r.live() {
					continue
				}
				alive = append(alive, r.Name)
				f := w.kube.opt.FateOf(r.Name)
				// Pods the node will never act on: deletion ignored and force deletion impossible, or never scheduled with the pending timeout disabled
				if !r.DelReqAt.IsZero() && f.OnDelete == "never" && (forceDisabled(cfg) || (j.Spec.Template != nil && j.Spec.Template.ForbidTaskForceDeletion)) {
					stuckOK = true
				}
				if r.DelReqAt.IsZero() && f.SchedDelay < 0 && pendingTimeout(j, cfg) <= 0 && (j.Spec.KillTimestamp == nil) && !sat && !unsat {
					stuckOK = true
				}
			}
			killed := j.Spec.KillTimestamp != nil && !now.Before(j.Spec.KillTimestamp.Time)
			switch {
			case stuckOK:
			case killed:
				m.fail("C12", "kill-not-terminal", "Job %s has a kill timestamp in the past (%s) but is in phase %s at the fixpoint (alive tasks %v)", j.Name, tsString(j.Spec.KillTimestamp), j.Status.Phase, alive)
			case adm:
				m.fail("C09", "admission-error-not-terminal", "Job %s has an admission error but is in phase %s at the fixpoint", j.Name, j.Status.Phase)
			case sat || unsat:
				m.fail("C10", "decided-not-finished", "Job %s: strategy decided (satisfied=%v unsatisfiable=%v) but phase is %s at the fixpoint (alive %v)", j.Name, sat, unsat, j.Status.Phase, alive)
			case j.Spec.KillTimestamp != nil:
				// kill time in the future beyond the horizon: nothing to demand
			default:
				if jr.ForeignHit {
					m.fail("C09", "foreign-object-no-admission-error", "Job %s hit a foreign object on a task name but is in phase %s (no AdmissionError) at the fixpoint", j.Name, j.Status.Phase)
				} else {
					m.fail("C10", "undecided-stuck", "Job %s is started, undecided, nothing is pending, phase %s at the fixpoint (alive %v, tasks %d)", j.Name, j.Status.Phase, alive, len(jr.Pods))
				}
			}
		}
		// C10: reported result matches truth at the end as well
		if f := j.Status.Condition.Finished; f != nil && !jr.UserEdited && j.DeletionTimestamp == nil {
			sat, unsat := m.truth(jr, j)
			if f.Result == execution.JobResultSuccess && !sat {
				m.fail("C10", "success-not-satisfied", "Job %s is Succeeded at the fixpoint but its strategy is not satisfied by tasks that really succeeded", j.Name)
			}
			if f.Result == execution.JobResultFailed && !unsat {
				m.fail("C10", "failed-still-satisfiable", "Job %s is Failed at the fixpoint but its strategy is not unsatisfiable", j.Name)
			}
		}
	}
	// C09 (2): every task the controller created for a Job that still exists is listed in its status
	for _, o := range jobs {
		j := o.(*execution.Job)
		jr := m.jobs[string(j.UID)]
		if jr == nil {
			continue
		}
		for _, r := range jr.Pods {
			m.Evals["C09_fix"]++
			if !r.Recorded && !r.Exists {
				m.fail("C09", "unrecorded-task:forgotten-attempt", "task %s was created for Job %s, never listed in its status, and is gone at the fixpoint", r.Name, j.Name)
			} else if !r.Recorded {
				m.fail("C09", m.unrecordedClass(j), "task %s was created for Job %s but is not listed in its status at the fixpoint (pod exists: %v)", r.Name, j.Name, r.Exists)
			}
		}
	}
	// C13: no orphaned tasks of removed Jobs; C12: no alive tasks of finished jobs
	for _, jr := range m.jobs {
		if !jr.Removed || jr.FinalizerStripped {
			continue
		}
		for _, r := range jr.Pods {
			if r.Exists {
				sig := "orphaned-task"
				if !r.Recorded && jr.LastObj != nil {
					sig = "orphaned-" + m.unrecordedClass(jr.LastObj)
				}
				m.fail("C13", sig, "task %s of removed Job %s still exists at the fixpoint (ever listed in status: %v)", r.Name, jr.Name, r.Recorded)
			}
		}
	}
}

func forceDisabled(cfg *configv1alpha1.JobExecutionConfig) bool {
	return cfg.ForceDeleteTaskTimeoutSeconds == nil || *cfg.ForceDeleteTaskTimeoutSeconds <= 0
}

func pendingTimeout(j *execution.Job, cfg *configv1alpha1.JobExecutionConfig) time.Duration {
	var pt time.Duration
	if cfg.DefaultPendingTimeoutSeconds != nil {
		pt = time.Duration(*cfg.DefaultPendingTimeoutSeconds) * time.Second
	}
	if j.Spec.Template != nil && j.Spec.Template.TaskPendingTimeoutSeconds != nil && *j.Spec.Template.TaskPendingTimeoutSeconds >= 0 {
		pt = time.Duration(*j.Spec.Template.TaskPendingTimeoutSeconds) * time.Second
	}
	return pt
}

// unrecordedClass classifies why a created task is missing from the Job's status: the
// controller only rediscovers an unrecorded task through create -> AlreadyExists ->
// adoption, which never happens once the Job may no longer create tasks.
func (m *Monitors) unrecordedClass(j *execution.Job) string {
	switch {
	case j.Spec.KillTimestamp != nil:
		return "unrecorded-task:job-killed"
	case j.DeletionTimestamp != nil:
		return "unrecorded-task:job-deleted"
	case j.Annotations[AnnAdmissionErr] != "":
		return "unrecorded-task:admission-error"
	case j.Status.Condition.Finished != nil:
		return "unrecorded-task:job-finished"
	}
	if j.Status.Phase == execution.JobTerminating {
		// the controller has decided the completion strategy: the Job only waits for its remaining tasks to stop
		return "unrecorded-task:strategy-decided"
	}
	return "unrecorded-task:adoptable"
}

// Outcome summarises what happened to every Job ever created, for twin-run comparison:
// name -> final result ("unfinished" if it never finished). Scheduled Jobs whose schedule
// time is not strictly inside the determinate window of their JobConfig (within one cron
// step after it was enabled, or at/after the instant it was disabled) are left out: whether
// such a time fires depends on the order of a tick and a delivery at the same instant.
// Task-level results are not compared: once a Job is decided its remaining tasks are
// stopped, and whether one of them finishes on its own first is a race, not an outcome.
func (m *Monitors) Outcome() map[string]string {
	out := map[string]string{}
	for _, jr := range m.jobs {
		if jr.LastObj != nil {
			if ann, ok := jr.LastObj.Annotations[AnnScheduleTime]; ok {
				u, _ := strconv.ParseInt(ann, 10, 64)
				t := time.Unix(u, 0)
				c := m.cronJCs[jr.JCUID]
				if c == nil || !t.After(c.EnabledAt.Add(m.w.Opt.CronStep)) || (!c.StopAt.IsZero() && !t.Before(c.StopAt)) {
					continue
				}
			}
		}
		res := "unfinished"
		if jr.LastObj != nil && jr.LastObj.Status.Condition.Finished != nil {
			res = string(jr.LastObj.Status.Condition.Finished.Result)
		}
		succ := map[string]bool{}
		for _, r := range jr.Pods {
			if r.Succeeded {
				succ[r.Idx] = true
			}
		}
		out[jr.NS+"/"+jr.Name] = res
	}
	return out
}

// ScheduledJobs returns "jobconfig uid@unix" for every scheduled Job ever created.
func (m *Monitors) ScheduledJobs() map[string]string { return m.schedJobs }
