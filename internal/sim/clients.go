package sim

import (
	"context"
	"strconv"

	corev1 "k8s.io/api/core/v1"
	"k8s.io/apimachinery/pkg/api/meta"
	metav1 "k8s.io/apimachinery/pkg/apis/meta/v1"
	"k8s.io/apimachinery/pkg/runtime"
	"k8s.io/apimachinery/pkg/watch"
	"k8s.io/client-go/kubernetes"
	k8sfake "k8s.io/client-go/kubernetes/fake"
	corev1client "k8s.io/client-go/kubernetes/typed/core/v1"

	execution "github.com/furiko-io/furiko/apis/execution/v1alpha1"
	furiko "github.com/furiko-io/furiko/pkg/generated/clientset/versioned"
	furikofake "github.com/furiko-io/furiko/pkg/generated/clientset/versioned/fake"
	execclient "github.com/furiko-io/furiko/pkg/generated/clientset/versioned/typed/execution/v1alpha1"
)

// Clients is a pair of clientsets bound to one actor ("ctrl#3", "user", "kubelet", "gc").
// Only Jobs, JobConfigs and Pods are backed by the simulated API; everything else is the
// generated fake (nobody uses it).
type Clients struct {
	API   *API
	Actor string
	// Gate, if set, is consulted before every mutating call: it may park the caller
	// (scheduling point) and decides the fault for the call.
	Gate func(ctx context.Context, c *Call)
	// ReadGate, if set, may fail a live GET (transient read failures are faults too).
	ReadGate func(kind Kind, ns, name string) error
	// OnLiveRead, if set, is told what a successful live GET returned (the reconcile's view of that object from then on).
	OnLiveRead func(kind Kind, ns, name string, obj runtime.Object)
	k        *kubeCS
	f        *furikoCS
}

func NewClients(api *API, actor string) *Clients {
	c := &Clients{API: api, Actor: actor}
	c.k = &kubeCS{Clientset: k8sfake.NewSimpleClientset(), c: c}
	c.f = &furikoCS{Clientset: furikofake.NewSimpleClientset(), c: c}
	return c
}

func (c *Clients) Kubernetes() kubernetes.Interface { return c.k }
func (c *Clients) Furiko() furiko.Interface         { return c.f }

func (c *Clients) call(ctx context.Context, verb string, kind Kind, ns, name string) *Call {
	call := &Call{Actor: c.Actor, Verb: verb, Kind: kind, NS: ns, Name: name}
	if c.Gate != nil {
		c.Gate(ctx, call)
	}
	return call
}

type kubeCS struct {
	*k8sfake.Clientset
	c *Clients
}

func (k *kubeCS) CoreV1() corev1client.CoreV1Interface {
	return &coreV1{CoreV1Interface: k.Clientset.CoreV1(), c: k.c}
}

type coreV1 struct {
	corev1client.CoreV1Interface
	c *Clients
}

func (v *coreV1) Pods(ns string) corev1client.PodInterface {
	return &pods{PodInterface: v.CoreV1Interface.Pods(ns), c: v.c, ns: ns}
}

type pods struct {
	corev1client.PodInterface
	c  *Clients
	ns string
}

func (p *pods) Create(ctx context.Context, pod *corev1.Pod, _ metav1.CreateOptions) (*corev1.Pod, error) {
	// the gate comes first: the object is serialised when the request is sent, not when the call was prepared
	c := p.c.call(ctx, "create", KPod, p.ns, pod.Name)
	pod = pod.DeepCopy()
	pod.Namespace = p.ns
	o, err := p.c.API.Create(c, pod)
	if err != nil {
		return nil, err
	}
	return o.(*corev1.Pod), nil
}
func (p *pods) Get(ctx context.Context, name string, _ metav1.GetOptions) (*corev1.Pod, error) {
	if p.c.ReadGate != nil {
		if err := p.c.ReadGate(KPod, p.ns, name); err != nil {
			return nil, err
		}
	}
	o, err := p.c.API.GetAs(p.c.Actor, KPod, p.ns, name)
	if err != nil {
		return nil, err
	}
	if p.c.OnLiveRead != nil {
		p.c.OnLiveRead(KPod, p.ns, name, o)
	}
	return o.(*corev1.Pod), nil
}
func (p *pods) UpdateStatus(ctx context.Context, pod *corev1.Pod, _ metav1.UpdateOptions) (*corev1.Pod, error) {
	o, err := p.c.API.Update(p.c.call(ctx, "update/status", KPod, p.ns, pod.Name), pod, true)
	if err != nil {
		return nil, err
	}
	return o.(*corev1.Pod), nil
}
func (p *pods) Update(ctx context.Context, pod *corev1.Pod, _ metav1.UpdateOptions) (*corev1.Pod, error) {
	o, err := p.c.API.Update(p.c.call(ctx, "update", KPod, p.ns, pod.Name), pod, false)
	if err != nil {
		return nil, err
	}
	return o.(*corev1.Pod), nil
}
func (p *pods) Delete(ctx context.Context, name string, opts metav1.DeleteOptions) error {
	c := p.c.call(ctx, "delete", KPod, p.ns, name)
	c.Force = opts.GracePeriodSeconds != nil && *opts.GracePeriodSeconds == 0
	return p.c.API.Delete(c, opts)
}

type furikoCS struct {
	*furikofake.Clientset
	c *Clients
}

func (f *furikoCS) ExecutionV1alpha1() execclient.ExecutionV1alpha1Interface {
	return &execV1{ExecutionV1alpha1Interface: f.Clientset.ExecutionV1alpha1(), c: f.c}
}

type execV1 struct {
	execclient.ExecutionV1alpha1Interface
	c *Clients
}

func (v *execV1) Jobs(ns string) execclient.JobInterface {
	return &jobs{JobInterface: v.ExecutionV1alpha1Interface.Jobs(ns), c: v.c, ns: ns}
}
func (v *execV1) JobConfigs(ns string) execclient.JobConfigInterface {
	return &jobConfigs{JobConfigInterface: v.ExecutionV1alpha1Interface.JobConfigs(ns), c: v.c, ns: ns}
}

type jobs struct {
	execclient.JobInterface
	c  *Clients
	ns string
}

func (j *jobs) Create(ctx context.Context, o *execution.Job, _ metav1.CreateOptions) (*execution.Job, error) {
	c := j.c.call(ctx, "create", KJob, j.ns, o.Name)
	o = o.DeepCopy()
	o.Namespace = j.ns
	r, err := j.c.API.Create(c, o)
	if err != nil {
		return nil, err
	}
	return r.(*execution.Job), nil
}
func (j *jobs) Get(ctx context.Context, name string, _ metav1.GetOptions) (*execution.Job, error) {
	if j.c.ReadGate != nil {
		if err := j.c.ReadGate(KJob, j.ns, name); err != nil {
			return nil, err
		}
	}
	r, err := j.c.API.GetAs(j.c.Actor, KJob, j.ns, name)
	if err != nil {
		return nil, err
	}
	return r.(*execution.Job), nil
}
func (j *jobs) Update(ctx context.Context, o *execution.Job, _ metav1.UpdateOptions) (*execution.Job, error) {
	r, err := j.c.API.Update(j.c.call(ctx, "update", KJob, j.ns, o.Name), o, false)
	if err != nil {
		return nil, err
	}
	return r.(*execution.Job), nil
}
func (j *jobs) UpdateStatus(ctx context.Context, o *execution.Job, _ metav1.UpdateOptions) (*execution.Job, error) {
	r, err := j.c.API.Update(j.c.call(ctx, "update/status", KJob, j.ns, o.Name), o, true)
	if err != nil {
		return nil, err
	}
	return r.(*execution.Job), nil
}
func (j *jobs) Delete(ctx context.Context, name string, opts metav1.DeleteOptions) error {
	return j.c.API.Delete(j.c.call(ctx, "delete", KJob, j.ns, name), opts)
}

type jobConfigs struct {
	execclient.JobConfigInterface
	c  *Clients
	ns string
}

func (j *jobConfigs) Create(ctx context.Context, o *execution.JobConfig, _ metav1.CreateOptions) (*execution.JobConfig, error) {
	c := j.c.call(ctx, "create", KJobConfig, j.ns, o.Name)
	o = o.DeepCopy()
	o.Namespace = j.ns
	r, err := j.c.API.Create(c, o)
	if err != nil {
		return nil, err
	}
	return r.(*execution.JobConfig), nil
}
func (j *jobConfigs) Get(ctx context.Context, name string, _ metav1.GetOptions) (*execution.JobConfig, error) {
	r, err := j.c.API.GetAs(j.c.Actor, KJobConfig, j.ns, name)
	if err != nil {
		return nil, err
	}
	return r.(*execution.JobConfig), nil
}
func (j *jobConfigs) Update(ctx context.Context, o *execution.JobConfig, _ metav1.UpdateOptions) (*execution.JobConfig, error) {
	r, err := j.c.API.Update(j.c.call(ctx, "update", KJobConfig, j.ns, o.Name), o, false)
	if err != nil {
		return nil, err
	}
	return r.(*execution.JobConfig), nil
}
func (j *jobConfigs) UpdateStatus(ctx context.Context, o *execution.JobConfig, _ metav1.UpdateOptions) (*execution.JobConfig, error) {
	r, err := j.c.API.Update(j.c.call(ctx, "update/status", KJobConfig, j.ns, o.Name), o, true)
	if err != nil {
		return nil, err
	}
	return r.(*execution.JobConfig), nil
}
func (j *jobConfigs) Delete(ctx context.Context, name string, opts metav1.DeleteOptions) error {
	return j.c.API.Delete(j.c.call(ctx, "delete", KJobConfig, j.ns, name), opts)
}

// ---------------------------------------------------------------------------
// List / Watch: lets the REAL client-go informers run on the simulated API (stress engine).

type watcher struct {
	ch   chan watch.Event
	stop chan struct{}
	done bool
}

func (w *watcher) ResultChan() <-chan watch.Event { return w.ch }
func (w *watcher) Stop() {
	if !w.done {
		w.done = true
		close(w.stop)
	}
}

// ListRV returns all objects of a kind together with the current resource version.
func (a *API) ListRV(k Kind) ([]runtime.Object, string) {
	a.mu.Lock()
	defer a.mu.Unlock()
	return a.listLocked(k), strconv.Itoa(a.rv)
}

// Watch streams all events of kind k whose resource version is greater than rv.
func (a *API) Watch(k Kind, rv string) watch.Interface {
	from, _ := strconv.Atoi(rv)
	w := &watcher{ch: make(chan watch.Event, 64), stop: make(chan struct{})}
	go func() {
		pos := 0
		for {
			a.mu.Lock()
			var evs []Event
			for {
				for pos < len(a.Log) {
					ev := a.Log[pos]
					pos++
					if ev.Kind != k {
						continue
					}
					m, _ := meta.Accessor(ev.Object)
					if erv, _ := strconv.Atoi(m.GetResourceVersion()); erv <= from {
						continue
					}
					evs = append(evs, ev)
				}
				if len(evs) > 0 {
					break
				}
				select {
				case <-w.stop:
					a.mu.Unlock()
					return
				default:
				}
				a.cond.Wait()
			}
			a.mu.Unlock()
			for _, ev := range evs {
				select {
				case w.ch <- watch.Event{Type: watch.EventType(ev.Type), Object: ev.Object.DeepCopyObject()}:
				case <-w.stop:
					return
				}
			}
		}
	}()
	return w
}

func (p *pods) List(ctx context.Context, _ metav1.ListOptions) (*corev1.PodList, error) {
	objs, rv := p.c.API.ListRV(KPod)
	l := &corev1.PodList{}
	l.ResourceVersion = rv
	for _, o := range objs {
		l.Items = append(l.Items, *o.(*corev1.Pod))
	}
	return l, nil
}
func (p *pods) Watch(ctx context.Context, o metav1.ListOptions) (watch.Interface, error) {
	return p.c.API.Watch(KPod, o.ResourceVersion), nil
}
func (j *jobs) List(ctx context.Context, _ metav1.ListOptions) (*execution.JobList, error) {
	objs, rv := j.c.API.ListRV(KJob)
	l := &execution.JobList{}
	l.ResourceVersion = rv
	for _, o := range objs {
		l.Items = append(l.Items, *o.(*execution.Job))
	}
	return l, nil
}
func (j *jobs) Watch(ctx context.Context, o metav1.ListOptions) (watch.Interface, error) {
	return j.c.API.Watch(KJob, o.ResourceVersion), nil
}
func (j *jobConfigs) List(ctx context.Context, _ metav1.ListOptions) (*execution.JobConfigList, error) {
	objs, rv := j.c.API.ListRV(KJobConfig)
	l := &execution.JobConfigList{}
	l.ResourceVersion = rv
	for _, o := range objs {
		l.Items = append(l.Items, *o.(*execution.JobConfig))
	}
	return l, nil
}
func (j *jobConfigs) Watch(ctx context.Context, o metav1.ListOptions) (watch.Interface, error) {
	return j.c.API.Watch(KJobConfig, o.ResourceVersion), nil
}
