package sim

import (
	"hash/fnv"
	"math/rand"
	"sync"
	"time"
)

// AtIndex injects one fault at the k-th gated controller call.
type AtIndex struct {
	K    int
	Kind FaultKind
	Hit  *Call
}

func (a *AtIndex) Decide(w *World, c *Call, index int) FaultKind {
	if index == a.K && a.Hit == nil {
		cc := *c
		a.Hit = &cc
		if a.Kind == F422Before && !(c.Kind == KPod && c.Verb == "create") {
			return F500Before
		}
		return a.Kind
	}
	return FNone
}

// RandomFaults injects faults with probability Pct% per call until Until calls have been made.
type RandomFaults struct {
	Pct      int
	Kinds    []FaultKind
	Until    int // stop after this many controller calls (0: never stop) - "once calls succeed again"
	R        *rand.Rand
	Crashes  int // maximum number of crash faults
	Hits     int
	Burst    int // remaining forced faults of a burst
	ReadPct  int // percent of live GETs by the controllers that fail with a 500 (until Until calls were made)
	ReadHits int
	perName  map[string]int
	mu       sync.Mutex
}

func (f *RandomFaults) Decide(w *World, c *Call, index int) FaultKind {
	if index < 0 {
		// helper goroutines (Pod deletes): decided by a hash of (name, attempt) so that the
		// goroutine order does not matter; at most two failures per name (faults are finite)
		f.mu.Lock()
		defer f.mu.Unlock()
		if f.perName == nil {
			f.perName = map[string]int{}
		}
		n := f.perName[c.Name]
		f.perName[c.Name] = n + 1
		if n >= 2 {
			return FNone
		}
		h := fnv.New32a()
		h.Write([]byte(c.Name))
		if int(h.Sum32()%100) < f.Pct {
			f.Hits++
			return F500Before
		}
		return FNone
	}
	if f.Until > 0 && index >= f.Until {
		return FNone
	}
	if f.Burst > 0 {
		f.Burst--
		f.Hits++
		return F500Before
	}
	if f.R.Intn(100) >= f.Pct {
		return FNone
	}
	k := f.Kinds[f.R.Intn(len(f.Kinds))]
	if (k == FCrashBefore || k == FCrashAfter) && f.Crashes <= 0 {
		k = F500Before
	}
	if k == FCrashBefore || k == FCrashAfter {
		f.Crashes--
	}
	if k == F422Before && !(c.Kind == KPod && c.Verb == "create") {
		k = F500Before
	}
	if f.R.Intn(12) == 0 {
		f.Burst = 2 + f.R.Intn(6)
	}
	f.Hits++
	return k
}

// Outage fails every gated controller call matching (Verb, Kind) - empty matches all - while the
// virtual clock is inside [From, To): a long, finite unavailability ("all Job creates fail for
// five minutes"). The per-item back-off of the workqueue makes such a burst dozens of failures long.
type Outage struct {
	Verb     string
	Kind     Kind
	From, To time.Duration // relative to the epoch
	Hits     int
	Inner    FaultPlan
}

func (o *Outage) Decide(w *World, c *Call, index int) FaultKind {
	at := w.Clk.Now().Sub(Epoch)
	if at >= o.From && at < o.To && (o.Verb == "" || o.Verb == c.Verb) && (o.Kind == "" || o.Kind == c.Kind) {
		o.Hits++
		return F500Before
	}
	if o.Inner != nil {
		return o.Inner.Decide(w, c, index)
	}
	return FNone
}

// DecideRead decides whether a live GET of a controller fails.
func (f *RandomFaults) DecideRead(w *World, kind Kind, name string) error {
	f.mu.Lock()
	defer f.mu.Unlock()
	if f.ReadPct <= 0 || (f.Until > 0 && w.CtrlCalls() >= f.Until) || f.ReadHits >= 8 {
		return nil // faults are finite: at most eight failed reads per case
	}
	h := fnv.New32a()
	h.Write([]byte(name))
	h.Write([]byte{byte(f.ReadHits), byte(w.CtrlCalls())})
	if int(h.Sum32()%100) < f.ReadPct {
		f.ReadHits++
		return faultErr(&Call{Fault: F500Before, Kind: kind, Name: name})
	}
	return nil
}
