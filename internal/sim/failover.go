package sim

// The failover scenario of the stress engine: several replicas of the controller manager, each
// built and started exactly as production does it (controllermanager.NewControllerManager with
// leader election enabled, Add, AddStore, Start), compete for one Lease. The acting leader is
// shut down (gracefully through ShutdownAndWait, or abruptly: its API calls hang for ever and its
// context is cancelled) while Jobs of Forbid/Enqueue JobConfigs are running and queued; a standby
// that has been waiting since long before takes over. What is judged is truth-based: no start
// write may exceed maxConcurrency (online, at the commit), and after the run went quiet the
// acting leader's active-job counter must equal the number of started, unfinished Jobs.

import (
	"context"
	"fmt"
	"math/rand"
	"sort"
	"strings"
	"sync"
	"time"

	corev1 "k8s.io/api/core/v1"
	metav1 "k8s.io/apimachinery/pkg/apis/meta/v1"
	"k8s.io/apimachinery/pkg/runtime"
	"k8s.io/client-go/informers"
	k8sfake "k8s.io/client-go/kubernetes/fake"
	"k8s.io/utils/pointer"

	configv1alpha1 "github.com/furiko-io/furiko/apis/config/v1alpha1"
	execution "github.com/furiko-io/furiko/apis/execution/v1alpha1"
	"github.com/furiko-io/furiko/pkg/execution/controllers/jobconfigcontroller"
	"github.com/furiko-io/furiko/pkg/execution/controllers/jobcontroller"
	"github.com/furiko-io/furiko/pkg/execution/controllers/jobqueuecontroller"
	"github.com/furiko-io/furiko/pkg/execution/stores/activejobstore"
	furikoinformers "github.com/furiko-io/furiko/pkg/generated/informers/externalversions"
	"github.com/furiko-io/furiko/pkg/runtime/controllercontext"
	"github.com/furiko-io/furiko/pkg/runtime/controllercontext/mock"
	"github.com/furiko-io/furiko/pkg/runtime/controllermanager"
)

// FailoverOptions configure one failover run.
type FailoverOptions struct {
	Seed       int64
	Phase      time.Duration // how long each leader acts before it is taken down
	Failovers  int           // number of leader changes
	JobConfigs int
	Workers    int
	MaxDelayMs int
}

type replica struct {
	actor  string
	mgr    *controllermanager.ControllerManager
	store  *activejobstore.Store
	ctx    context.Context
	cancel context.CancelFunc
	led    chan struct{} // closed when Start returned (the replica leads and its controllers run)
	err    error
}

// RunFailover runs the scenario and returns what the monitors observed.
func RunFailover(opt FailoverOptions) *StressResult {
	SilenceLogs()
	res := &StressResult{Counts: map[string]int{}, StartTraces: map[string]bool{}}
	rnd := rand.New(rand.NewSource(opt.Seed))
	api := NewAPI(time.Now)
	newCfg := func() *mock.Configs { // every process has its own configuration manager
		cfg := mock.NewConfigs()
		cfg.SetConfigs(map[configv1alpha1.ConfigName]runtime.Object{
			configv1alpha1.JobExecutionConfigName: &configv1alpha1.JobExecutionConfig{DefaultTTLSecondsAfterFinished: pointer.Int64(2), DefaultPendingTimeoutSeconds: pointer.Int64(0), ForceDeleteTaskTimeoutSeconds: pointer.Int64(0)},
		})
		return cfg
	}
	adm, err := NewAdmission(api, newCfg())
	if err != nil {
		res.Notes = append(res.Notes, "admission: "+err.Error())
		return res
	}
	api.Admit = adm.Admit
	mon := &stressMon{api: api, res: res, pods: map[string]*podRec{}}
	api.OnCommit = append(api.OnCommit, mon.onCommit)
	root, stopAll := context.WithCancel(context.Background())
	defer stopAll()

	leases := k8sfake.NewSimpleClientset() // the one Lease all replicas compete for
	var gateMu sync.Mutex
	gateRnd := rand.New(rand.NewSource(opt.Seed ^ 0x5157))
	newReplica := func(n int) (*replica, error) {
		r := &replica{actor: fmt.Sprintf("ctrl#%d", n), led: make(chan struct{})}
		cs := NewClients(api, r.actor)
		cs.k.Clientset = leases
		cs.Gate = func(ctx context.Context, c *Call) {
			if opt.MaxDelayMs <= 0 {
				return
			}
			gateMu.Lock()
			d := time.Duration(gateRnd.Intn(opt.MaxDelayMs*1000)) * time.Microsecond
			gateMu.Unlock()
			time.Sleep(d)
		}
		c := &stressCtx{cs: cs, cfg: newCfg(), strs: controllercontext.NewContextStores()}
		c.inf = &realInformers{k: informers.NewSharedInformerFactory(cs.Kubernetes(), 0), f: furikoinformers.NewSharedInformerFactory(cs.Furiko(), 0)}
		store, err := activejobstore.NewStore(c)
		if err != nil {
			return nil, err
		}
		c.strs.Register(store)
		r.store = store
		conc := &configv1alpha1.Concurrency{Workers: uint64(opt.Workers)}
		jc, err := jobcontroller.NewController(c, conc)
		if err != nil {
			return nil, err
		}
		jcc, err := jobconfigcontroller.NewController(c, conc)
		if err != nil {
			return nil, err
		}
		jqc, err := jobqueuecontroller.NewController(c, conc)
		if err != nil {
			return nil, err
		}
		mgr, err := controllermanager.NewControllerManager(c, configv1alpha1.ControllerManagerConfigSpec{LeaderElection: &configv1alpha1.LeaderElectionSpec{
			Enabled: pointer.Bool(true), LeaseName: "furiko-verif", LeaseNamespace: "furiko-system",
			// generous lease timings: a leader can only lose its lease by not renewing it for 8 s, takeovers below do not
			// depend on them (the lease is released when the leader's context ends)
			LeaseDuration: metav1.Duration{Duration: 10 * time.Second}, RenewDeadline: metav1.Duration{Duration: 8 * time.Second}, RetryPeriod: metav1.Duration{Duration: 200 * time.Millisecond},
		}}, "furiko-verif")
		if err != nil {
			return nil, err
		}
		mgr.Add(jc, jcc, jqc)
		mgr.AddStore(store)
		r.mgr = mgr
		r.ctx, r.cancel = context.WithCancel(root)
		go func() {
			r.err = mgr.Start(r.ctx, 0)
			close(r.led)
		}()
		return r, nil
	}

	user := NewClients(api, "user")
	var jcNames []string
	for i := 0; i < opt.JobConfigs; i++ {
		pol := []execution.ConcurrencyPolicy{execution.ConcurrencyPolicyForbid, execution.ConcurrencyPolicyEnqueue, execution.ConcurrencyPolicyEnqueue}[i%3]
		jcfg := &execution.JobConfig{ObjectMeta: metav1.ObjectMeta{Name: fmt.Sprintf("jc%d", i), Namespace: "default"},
			Spec: execution.JobConfigSpec{Concurrency: execution.ConcurrencySpec{Policy: pol, MaxConcurrency: pointer.Int64(int64(1 + i%2))},
				Template: execution.JobTemplateSpec{Spec: execution.JobTemplate{MaxAttempts: pointer.Int64(1), TaskTemplate: PodTemplate()}}}}
		if _, err := user.Furiko().ExecutionV1alpha1().JobConfigs("default").Create(root, jcfg, metav1.CreateOptions{}); err != nil {
			res.Notes = append(res.Notes, "jobconfig create: "+err.Error())
			continue
		}
		jcNames = append(jcNames, jcfg.Name)
	}

	// the node: Pods run for 0.6 - 2 s, so that Jobs are running across a failover
	kub := NewClients(api, "kubelet")
	var wg sync.WaitGroup
	wg.Add(1)
	go func() {
		defer wg.Done()
		zero := int64(0)
		for root.Err() == nil {
			time.Sleep(15 * time.Millisecond)
			for _, o := range api.List(KPod) {
				p := o.(*corev1.Pod)
				pods := kub.Kubernetes().CoreV1().Pods(p.Namespace)
				now := metav1.Now()
				terminal := p.Status.Phase == corev1.PodSucceeded || p.Status.Phase == corev1.PodFailed
				switch {
				case p.DeletionTimestamp != nil:
					_ = pods.Delete(root, p.Name, metav1.DeleteOptions{GracePeriodSeconds: &zero})
				case terminal:
				case p.Spec.NodeName == "":
					p.Spec.NodeName = "node-1"
					_, _ = pods.Update(root, p, metav1.UpdateOptions{})
				case p.Status.Phase != corev1.PodRunning:
					p.Status.Phase = corev1.PodRunning
					p.Status.StartTime = &now
					p.Status.ContainerStatuses = []corev1.ContainerStatus{{Name: "c", State: corev1.ContainerState{Running: &corev1.ContainerStateRunning{StartedAt: now}}}}
					_, _ = pods.UpdateStatus(root, p, metav1.UpdateOptions{})
				case time.Since(p.Status.StartTime.Time) > time.Duration(600+len(p.Name)%8*200)*time.Millisecond:
					term := &corev1.ContainerStateTerminated{StartedAt: *p.Status.StartTime, FinishedAt: now, Reason: "Completed"}
					p.Status.Phase = corev1.PodSucceeded
					if len(p.Name)%4 == 0 {
						p.Status.Phase = corev1.PodFailed
						term.ExitCode, term.Reason = 1, "Error"
					}
					p.Status.ContainerStatuses = []corev1.ContainerStatus{{Name: "c", State: corev1.ContainerState{Terminated: term}}}
					_, _ = pods.UpdateStatus(root, p, metav1.UpdateOptions{})
				}
			}
		}
	}()
	// the user: a steady stream of ad-hoc Jobs (queues build up), some kills and deletions
	stopLoad := make(chan struct{})
	wg.Add(1)
	go func() {
		defer wg.Done()
		for i := 0; ; i++ {
			select {
			case <-stopLoad:
				return
			case <-time.After(time.Duration(60+rnd.Intn(140)) * time.Millisecond):
			}
			jobsC := user.Furiko().ExecutionV1alpha1().Jobs("default")
			switch x := rnd.Intn(10); {
			case x < 7 && len(jcNames) > 0:
				j := &execution.Job{ObjectMeta: metav1.ObjectMeta{Name: fmt.Sprintf("adhoc-%d", i), Namespace: "default"}, Spec: execution.JobSpec{ConfigName: jcNames[rnd.Intn(len(jcNames))]}}
				if _, err := jobsC.Create(root, j, metav1.CreateOptions{}); err == nil {
					mon.inc("adhoc_jobs")
				}
			case x < 8:
				if jobs := api.List(KJob); len(jobs) > 0 {
					j := jobs[rnd.Intn(len(jobs))].(*execution.Job)
					if j.Spec.KillTimestamp == nil {
						k := metav1.NewTime(time.Now())
						j.Spec.KillTimestamp = &k
						if _, err := jobsC.Update(root, j, metav1.UpdateOptions{}); err == nil {
							mon.inc("kills")
						}
					}
				}
			case x < 9:
				if jobs := api.List(KJob); len(jobs) > 0 {
					j := jobs[rnd.Intn(len(jobs))].(*execution.Job)
					if jobsC.Delete(root, j.Name, metav1.DeleteOptions{}) == nil {
						mon.inc("deletes")
					}
				}
			}
		}
	}()

	waitLed := func(r *replica, what string) bool {
		select {
		case <-r.led:
			if r.err != nil {
				res.Notes = append(res.Notes, what+": "+r.err.Error())
				return false
			}
			return true
		case <-time.After(20 * time.Second):
			res.Notes = append(res.Notes, what+": not leading after 20 s")
			return false
		}
	}
	leader, err := newReplica(1)
	ok := err == nil
	if err != nil {
		res.Notes = append(res.Notes, "replica 1: "+err.Error())
	}
	ok = ok && waitLed(leader, "replica 1")
	for f := 0; ok && f < opt.Failovers; f++ {
		// the standby comes up early in the leader's term and waits to be elected all along
		time.Sleep(opt.Phase / 5)
		standby, err := newReplica(f + 2)
		if err != nil {
			res.Notes = append(res.Notes, "standby: "+err.Error())
			ok = false
			break
		}
		time.Sleep(opt.Phase * 4 / 5)
		select {
		case <-standby.led:
			res.Viol = append(res.Viol, Violation{Prop: "C05", Sig: "two-leaders", Msg: fmt.Sprintf("standby %s was elected and started its stores and controllers while %s, which had not been stopped, was still running its own: two processes admit Jobs with separate counters", standby.actor, leader.actor)})
			res.Notes = append(res.Notes, "two leaders at once: run abandoned")
			ok = false
		default:
		}
		if !ok {
			break
		}
		if f%2 == 0 {
			// abrupt: the process is gone in the middle of whatever it was doing
			api.Locked(func() { api.Dead[leader.actor] = true })
			leader.cancel()
			mon.inc("failovers_abrupt")
		} else {
			sctx, c := context.WithTimeout(root, 10*time.Second)
			leader.mgr.ShutdownAndWait(sctx)
			c()
			leader.cancel()
			mon.inc("failovers_graceful")
		}
		if !waitLed(standby, "standby "+standby.actor) {
			ok = false
			break
		}
		leader = standby
	}
	if ok {
		time.Sleep(opt.Phase)
	}
	close(stopLoad)
	// quiescence: no committed change for 1.5 s (bounded wait; not reaching it is inconclusive, not a violation)
	last, lastChange := api.LogLen(), time.Now()
	deadline := time.Now().Add(25 * time.Second)
	for ok && time.Now().Before(deadline) {
		time.Sleep(100 * time.Millisecond)
		if n := api.LogLen(); n != last {
			last, lastChange = n, time.Now()
		} else if time.Since(lastChange) > 1500*time.Millisecond {
			res.Quiesced = true
			break
		}
	}
	if res.Quiesced {
		api.Locked(func() {
			for _, o := range api.peek(KJobConfig) {
				jcfg := o.(*execution.JobConfig)
				var act []string
				for _, x := range api.peek(KJob) {
					if xj := x.(*execution.Job); xj.Labels[LabelJCUID] == string(jcfg.UID) && isActive(xj) {
						act = append(act, xj.Name)
					}
				}
				sort.Strings(act)
				res.Counts["counter_checks"]++
				if cnt := leader.store.CountActiveJobsForConfig(jcfg); int(cnt) != len(act) {
					res.Viol = append(res.Viol, Violation{Prop: "C05", Sig: "counter-vs-truth", Msg: fmt.Sprintf("after %d leader changes and after the run went quiet, the acting leader %s counts %d active Jobs for JobConfig %s but %d Jobs are started and not finished %v", opt.Failovers, leader.actor, cnt, jcfg.Name, len(act), act)})
				}
			}
		})
	} else if ok {
		res.Notes = append(res.Notes, "the system did not go quiet within 25 s after the load stopped")
	}
	stopAll()
	wg.Wait()
	res.Counts["api_events"] = api.LogLen()
	for i, n := range res.Notes {
		res.Notes[i] = strings.TrimSpace(n)
	}
	return res
}
