package sim

import (
	"sort"
	"time"
)

// DetQueue implements workqueue.RateLimitingInterface in virtual time with
// client-go's dirty/processing semantics. Get never blocks.
type DetQueue struct {
	Name       string
	Now        func() time.Time // virtual clock
	RealNow    func() time.Time
	queue      []interface{}
	dirty      map[interface{}]bool
	processing map[interface{}]bool
	delayed    []delayedItem
	requeues   map[interface{}]int
	selected   interface{}
	Adds       int
	Gets       int
	MaxRequeue int
	OnAdd      func(item interface{}) // observer of every Add (before de-duplication)
	// Epoch shift: callers compute delays as time.Until(virtualDeadline) against the wall clock.
}

type delayedItem struct {
	item interface{}
	at   time.Time
	why  string
}

func NewDetQueue(name string, now func() time.Time) *DetQueue {
	return &DetQueue{Name: name, Now: now, RealNow: time.Now, dirty: map[interface{}]bool{}, processing: map[interface{}]bool{}, requeues: map[interface{}]int{}}
}

func (q *DetQueue) Add(item interface{}) {
	if q.OnAdd != nil {
		q.OnAdd(item)
	}
	q.add(item)
}

func (q *DetQueue) add(item interface{}) {
	q.Adds++
	if q.dirty[item] {
		return
	}
	q.dirty[item] = true
	if q.processing[item] {
		return
	}
	q.queue = append(q.queue, item)
}
func (q *DetQueue) Len() int { return len(q.queue) }

// Ready lists items that can be handed to a worker.
func (q *DetQueue) Ready() []interface{} { return append([]interface{}(nil), q.queue...) }

// Select makes the next Get return the given item.
func (q *DetQueue) Select(item interface{}) { q.selected = item }

func (q *DetQueue) Get() (interface{}, bool) {
	if len(q.queue) == 0 {
		return nil, true // nothing to do: tell the worker to quit rather than block
	}
	pos := 0
	if q.selected != nil {
		for i, it := range q.queue {
			if it == q.selected {
				pos = i
			}
		}
	}
	item := q.queue[pos]
	q.queue = append(q.queue[:pos:pos], q.queue[pos+1:]...)
	q.selected = nil
	q.processing[item] = true
	delete(q.dirty, item)
	q.Gets++
	return item, false
}
func (q *DetQueue) Done(item interface{}) {
	delete(q.processing, item)
	if q.dirty[item] {
		q.queue = append(q.queue, item)
	}
}
func (q *DetQueue) ShutDown()          {}
func (q *DetQueue) ShutDownWithDrain() {}
func (q *DetQueue) ShuttingDown() bool { return false }

// AddAfter recovers the absolute deadline the caller meant. The controllers decide
// with the virtual clock but compute delays with the wall clock
// (time.Until(deadline)); the virtual epoch lies far in the wall-clock future, so
// deadline = wallNow + d (rounded to absorb the jitter between the two wall-clock
// reads). A delay that is not later than "now" in virtual terms fires after the
// caller's own 1 s floor.
func (q *DetQueue) AddAfter(item interface{}, d time.Duration) {
	if d <= 0 {
		q.Add(item)
		return
	}
	// every virtual instant in a simulation is a whole second (API timestamps, scripted
	// times and the back-off below), so rounding to the second absorbs any wall-clock jitter
	deadline := q.RealNow().Add(d).Round(time.Second)
	vnow := q.Now()
	if d < 365*24*time.Hour {
		// A genuinely relative delay (not derived from a virtual deadline, which would be
		// more than a decade away from the wall clock): interpret relative to virtual now.
		deadline = vnow.Add(d)
	}
	if min := vnow.Add(time.Second); deadline.Before(min) {
		deadline = min
	}
	q.addDelayed(item, deadline, "after")
}

func (q *DetQueue) addDelayed(item interface{}, at time.Time, why string) {
	// like client-go's delaying queue: an item waiting with an earlier deadline keeps it
	for i := range q.delayed {
		if q.delayed[i].item == item {
			if at.Before(q.delayed[i].at) {
				q.delayed[i].at = at
			}
			if why == "ratelimited" {
				// the pending wake-up now (also) stands for the retry of a failed sync
				q.delayed[i].why = why
			}
			return
		}
	}
	q.delayed = append(q.delayed, delayedItem{item: item, at: at, why: why})
}

func (q *DetQueue) AddRateLimited(item interface{}) {
	n := q.requeues[item]
	q.requeues[item] = n + 1
	if n+1 > q.MaxRequeue {
		q.MaxRequeue = n + 1
	}
	// client-go's per-item back-off is 5ms * 2^n capped at 1000s; rounded up to whole
	// virtual seconds here so that all timers stay on second boundaries
	d := 5 * time.Millisecond << uint(n)
	if n > 30 || d > 1000*time.Second || d <= 0 {
		d = 1000 * time.Second
	}
	d = (d + time.Second - 1) / time.Second * time.Second
	q.addDelayed(item, q.Now().Add(d), "ratelimited")
}
func (q *DetQueue) Forget(item interface{})          { delete(q.requeues, item) }
func (q *DetQueue) NumRequeues(item interface{}) int { return q.requeues[item] }

// NextTimer returns the earliest delayed deadline.
func (q *DetQueue) NextTimer() (time.Time, bool) {
	if len(q.delayed) == 0 {
		return time.Time{}, false
	}
	sort.SliceStable(q.delayed, func(i, j int) bool { return q.delayed[i].at.Before(q.delayed[j].at) })
	return q.delayed[0].at, true
}

// FireDue moves all delayed items whose deadline has passed into the queue.
func (q *DetQueue) FireDue() int {
	now := q.Now()
	n := 0
	rest := q.delayed[:0]
	for _, d := range q.delayed {
		if !d.at.After(now) {
			q.add(d.item)
			n++
		} else {
			rest = append(rest, d)
		}
	}
	q.delayed = rest
	return n
}

// Busy reports whether any item is being processed.
func (q *DetQueue) Busy() bool { return len(q.processing) > 0 }

// PendingRequeues returns the largest number of consecutive failed syncs among the items that are
// still waiting to be retried (an item that finally succeeded was forgotten and does not count).
func (q *DetQueue) PendingRequeues() (int, interface{}) {
	best, which := 0, interface{}(nil)
	for _, d := range q.delayed {
		if d.why == "ratelimited" && q.requeues[d.item] > best {
			best, which = q.requeues[d.item], d.item
		}
	}
	return best, which
}
